import RootSim.Model.SpecV2
import RootSim.Proofs.Spec
/-! Prefix uniqueness under the NON-STRICT contract `Spec.V2`.

`Proofs/Spec.lean` ties every run of the sequential relation to a global history `G` with `Spec.Hist` using
strict causality in exactly one place (`Phase1.minimal_rem_pending`: a minimal not-yet-dispatched event of
the history is pending, because its cause is strictly before it, hence dispatched). Under V2 alone that
step is FALSE for an arbitrary history with H1–H3 (`PrefixUnique.v2_only_counterexample`). Here it is made
a hypothesis, `Spec.Progress M G g`: whenever a sequential run has so far followed the history and some event
of the history below `g` has not been dispatched yet, then some not-yet-dispatched event of the history
that is minimal among those is pending. Everything else goes through with V2 (destinations, types, time
monotonicity). `Progress` follows from V2s (`progress_of_V2s`), and — the point — from the ghost creation
order of the instrumented Time Warp machine under V2 alone (`Proofs/TimeWarpG.lean`). -/
namespace RootSim.Spec
open RootSim List

variable {σ : Type}

theorem V2s.toV2 {M : SimModel σ} (V : V2s M) : V2 M :=
  fun ℓ s c o ho => ⟨Event.before_asymm (V ℓ s c o ho).1, (V ℓ s c o ho).2⟩

theorem V2.timeMono {M : SimModel σ} (V : V2 M) : TimeMono M :=
  fun ℓ s c o ho => Event.t_le_of_not_before (V ℓ s c o ho).1

theorem v2Check_sound {M : SimModel σ} {ℓ : Nat} {s : σ} {c : Event} (h : v2Check M ℓ s c = true) :
    M.validStep ℓ s c := by
  intro o ho
  unfold v2Check at h
  have := List.all_eq_true.mp h o ho
  simp only [Bool.and_eq_true, Bool.not_eq_true', decide_eq_true_eq] at this
  exact ⟨this.1.1, this.1.2, this.2⟩

theorem _root_.RootSim.Event.not_before_of_t_lt {a b : Event} (h : a.t < b.t) :
    Event.before b a = false := Event.before_asymm (Event.before_of_t_lt h)

/-- events that differ at most in their destination are incomparable -/
theorem _root_.RootSim.Event.not_before_same {a b : Event} (ht : a.t = b.t) (hty : a.type = b.type)
    (hpl : a.payload = b.payload) : Event.before a b = false := by
  unfold Event.before
  rw [C16.content_only a.toMsg b.toMsg b.toMsg b.toMsg
    (by simp [Msg.content, Event.toMsg, Msg.anti, Msg.body, ht, hty, hpl]) rfl]
  exact C16.irrefl _

/-- what the machine must supply under V2: the sequential run can always continue along the history -/
def Progress (M : SimModel σ) (G : Nat → List Event) (g : Nat) : Prop :=
  ∀ s : SeqState σ, Phase1 M G g s → remAll M G g s ≠ [] →
    ∃ y ∈ remAll M G g s, (∀ z ∈ remAll M G g s, Event.before z y = false) ∧ y ∈ s.pending

/-- under strict causality `Progress` holds for every history with H1–H3 -/
theorem progress_of_V2s {M : SimModel σ} {G : Nat → List Event} {g : Nat} (H : Hist M G g)
    (V : V2sBelow M G g) (T : TimeMono M) : Progress M G g := by
  intro s P hne
  obtain ⟨y, hyR, hymin⟩ := Event.exists_minimal (remAll M G g s) hne
  exact ⟨y, hyR, hymin, P.minimal_rem_pending H V T hyR hymin⟩

theorem Progress.mono {M : SimModel σ} {G : Nat → List Event} {g' g : Nat} (hg : g' ≤ g)
    (W : Progress M G g) : Progress M G g' := by
  intro s P hne
  -- a phase-1 state for `g'` is one for `g`
  have P' : Phase1 M G g s :=
    ⟨P.pre, P.ne, fun ℓ hℓ x hx => by have := P.low ℓ hℓ x hx; omega, P.st, P.cnt⟩
  obtain ⟨a, ha⟩ := List.exists_mem_of_ne_nil _ hne
  obtain ⟨ℓa, hℓa, har, hat⟩ := mem_remAll.mp ha
  have hne' : remAll M G g s ≠ [] := List.ne_nil_of_mem (mem_remAll.mpr ⟨ℓa, hℓa, har, by omega⟩)
  obtain ⟨y, hyR, hymin, hyp⟩ := W s P' hne'
  obtain ⟨ℓy, hℓy, hyr, _⟩ := mem_remAll.mp hyR
  have hya : Event.before a y = false := hymin a (mem_remAll.mpr ⟨ℓa, hℓa, har, by omega⟩)
  have hyt : y.t < g' := by have := Event.t_le_of_not_before hya; omega
  refine ⟨y, mem_remAll.mpr ⟨ℓy, hℓy, hyr, hyt⟩, ?_, hyp⟩
  intro z hz
  obtain ⟨ℓz, hℓz, hzr, hzt⟩ := mem_remAll.mp hz
  exact hymin z (mem_remAll.mpr ⟨ℓz, hℓz, hzr, by omega⟩)

section phase1
variable {M : SimModel σ} {G : Nat → List Event} {g : Nat} {s : SeqState σ}

/-- a pending event below `g` is in the remainder of its destination LP's history (V2: destinations) -/
theorem Phase1.pending_in_rem2 (H : Hist M G g) (V : V2 M) (P : Phase1 M G g s)
    {e : Event} (he : e ∈ s.pending) (hlt : e.t < g) :
    e.dest < M.nLps ∧ e ∈ remOf G s e.dest := by
  have hc := P.cnt e
  have hpos : 0 < s.pending.count e := List.count_pos_iff.mpr he
  have hmem : e ∈ outsAll M s.disp := List.count_pos_iff.mp (by omega)
  obtain ⟨ℓ', _, hout⟩ := List.mem_flatMap.mp hmem
  obtain ⟨P0, c, S, _, hy⟩ := mem_outsFrom M ℓ' _ _ hout
  have hd := (V ℓ' _ c e hy).2.1
  refine ⟨hd, ?_⟩
  have h1 := P.count_rest H hd
  have h2 := P.count_outs_le e
  have h3 := H.count_eq hd hlt
  rw [P.tail_split hd, List.count_append] at h3
  exact List.count_pos_iff.mp (by omega)

/-- **Key lemma under V2 + `Progress`**: in phase 1, a minimal pending event below `g` is (equal to) the
next event of its destination LP's history. -/
theorem Phase1.next_of_minimal2 (H : Hist M G g) (V : V2 M) (W : Progress M G g)
    (P : Phase1 M G g s) {e : Event} (he : e ∈ s.pending) (hmin : Minimal e s.pending)
    (hlt : e.t < g) : e.dest < M.nLps ∧ ∃ S, remOf G s e.dest = e :: S := by
  obtain ⟨hd, her⟩ := P.pending_in_rem2 H V he hlt
  refine ⟨hd, ?_⟩
  have heR : e ∈ remAll M G g s := mem_remAll.mpr ⟨_, hd, her, hlt⟩
  obtain ⟨y, hyR, hymin, hyp⟩ := W s P (List.ne_nil_of_mem heR)
  have hye : Event.before y e = false := hmin y hyp
  have heminR : ∀ z ∈ remAll M G g s, Event.before z e = false := by
    intro z hz
    cases hze : Event.before z e with
    | false => rfl
    | true =>
      rcases Event.before_cases y hze with h | h
      · rw [hymin z hz] at h; exact Bool.noConfusion h
      · rw [hye] at h; exact Bool.noConfusion h
  cases hrem : remOf G s e.dest with
  | nil => rw [hrem] at her; simp at her
  | cons x S =>
    rw [hrem] at her
    have hsorted := H.sorted _ hd
    rw [P.tail_split hd, hrem, List.pairwise_append, List.pairwise_cons] at hsorted
    have hex : Event.before e x = false := by
      rcases List.mem_cons.mp her with rfl | h
      · exact Event.before_irrefl _
      · exact hsorted.2.1.1 e h
    have hxt : x.t < g := by have := Event.t_le_of_not_before hex; omega
    have hxR : x ∈ remAll M G g s := mem_remAll.mpr ⟨_, hd, by rw [hrem]; simp, hxt⟩
    have hxe : Event.before x e = false := heminR x hxR
    have hxd : x.dest = e.dest := P.rem_dest H hd (by rw [hrem]; simp)
    have : x = e := Event.eq_of_incomp hxe hex hxd
    exact ⟨S, by rw [this]⟩

/-- phase 1 is preserved by dispatching an event that is the next event of its LP's history -/
theorem Phase1.step_of_next (P : Phase1 M G g s) {e : Event} (he : e ∈ s.pending) (hlt : e.t < g)
    (hd : e.dest < M.nLps) {S : List Event} (hS : remOf G s e.dest = e :: S) :
    Phase1 M G g (dispatch M { s with pending := s.pending.erase e } e) := by
  have hne := P.ne _ hd
  refine ⟨?_, ?_, ?_, ?_, ?_⟩
  · intro ℓ hℓ
    rw [dispatch_disp]
    by_cases h : ℓ = e.dest
    · subst h
      rw [upd_same]
      exact ⟨S, by rw [P.split hd, hS]; simp⟩
    · rw [upd_other _ _ h]; exact P.pre ℓ hℓ
  · intro ℓ hℓ
    rw [dispatch_disp]
    by_cases h : ℓ = e.dest
    · subst h; rw [upd_same]; simp
    · rw [upd_other _ _ h]; exact P.ne ℓ hℓ
  · intro ℓ hℓ x hx
    rw [dispatch_disp] at hx
    by_cases h : ℓ = e.dest
    · subst h
      rw [upd_same, List.tail_append_of_ne_nil hne, List.mem_append] at hx
      rcases hx with hx | hx
      · exact P.low _ hd x hx
      · simp at hx; subst hx; exact hlt
    · rw [upd_other _ _ h] at hx; exact P.low ℓ hℓ x hx
  · intro ℓ hℓ
    rw [dispatch_disp, dispatch_st]
    by_cases h : ℓ = e.dest
    · subst h
      rw [upd_same, upd_same, lpState_append, ← P.st _ hd]
      rfl
    · rw [upd_other _ _ h, upd_other _ _ h]; exact P.st ℓ hℓ
  · intro x
    have hc := P.cnt x
    rw [dispatch_pending, dispatch_disp]
    simp only [List.count_append, List.count_erase]
    have hr : (restAll M.nLps (upd s.disp e.dest (s.disp e.dest ++ [e]))).count x =
        (restAll M.nLps s.disp).count x + [e].count x := by
      apply add_flatMap_upd (additive_count x) (f := fun ℓ => (s.disp ℓ).tail)
        (f' := fun ℓ => (upd s.disp e.dest (s.disp e.dest ++ [e]) ℓ).tail) (ℓ := e.dest) _ _
        List.nodup_range (List.mem_range.mpr hd)
      · intro ℓ' _ h; rw [upd_other _ _ h]
      · rw [upd_same, List.tail_append_of_ne_nil hne, List.count_append]
    have ho : (outsAll M (upd s.disp e.dest (s.disp e.dest ++ [e]))).count x =
        (outsAll M s.disp).count x + (M.handler e.dest (s.st e.dest) e).2.count x := by
      apply add_flatMap_upd (additive_count x) (f := fun ℓ => outs M ℓ (s.disp ℓ))
        (f' := fun ℓ => outs M ℓ (upd s.disp e.dest (s.disp e.dest ++ [e]) ℓ)) (ℓ := e.dest) _ _
        List.nodup_range (List.mem_range.mpr hd)
      · intro ℓ' _ h; rw [upd_other _ _ h]
      · rw [upd_same, outs_append, List.count_append, ← P.st _ hd]
        simp [outsFrom]
    rw [hr, ho, List.count_singleton]
    have hpos : 0 < s.pending.count e := List.count_pos_iff.mpr he
    by_cases hxe : e = x
    · subst hxe
      simp only [beq_self_eq_true, if_true]
      omega
    · have hb : (e == x) = false := by simpa using hxe
      simp only [hb, Bool.false_eq_true, if_false]
      omega

theorem Phase1.step2 (H : Hist M G g) (V : V2 M) (W : Progress M G g)
    (P : Phase1 M G g s) {e : Event} (he : e ∈ s.pending) (hmin : Minimal e s.pending)
    (hlt : e.t < g) :
    Phase1 M G g (dispatch M { s with pending := s.pending.erase e } e) := by
  obtain ⟨hd, S, hS⟩ := P.next_of_minimal2 H V W he hmin hlt
  exact P.step_of_next he hlt hd hS

/-- in phase 1, when no pending event is below `g`, the histories have no remainder below `g` -/
theorem Phase1.remAll_nil2 (W : Progress M G g) (P : Phase1 M G g s)
    (hlate : ∀ x ∈ s.pending, g ≤ x.t) : remAll M G g s = [] := by
  apply Classical.byContradiction
  intro hne
  obtain ⟨y, hyR, _, hyp⟩ := W s P hne
  obtain ⟨_, _, _, hyt⟩ := mem_remAll.mp hyR
  have := hlate y hyp
  omega

theorem Phase1.toPhase2' (H : Hist M G g) (W : Progress M G g)
    (P : Phase1 M G g s) (hlate : ∀ x ∈ s.pending, g ≤ x.t) : Phase2 M G g s := by
  refine ⟨hlate, ?_⟩
  intro ℓ hℓ
  refine ⟨[], ?_, by simp⟩
  have hR := P.remAll_nil2 W hlate
  have hrem : (remOf G s ℓ).filter (below g) = [] := by
    unfold remAll at hR
    rw [List.flatMap_eq_nil_iff] at hR
    exact hR ℓ (List.mem_range.mpr hℓ)
  have hd : (s.disp ℓ).tail.filter (below g) = (s.disp ℓ).tail := by
    rw [List.filter_eq_self]
    intro a ha
    simpa [below] using P.low ℓ hℓ a ha
  rw [P.tail_split hℓ, List.filter_append, hrem, hd, List.append_nil, List.append_nil]
  exact P.disp_cons H hℓ

end phase1

section main
variable {M : SimModel σ} {G : Nat → List Event} {g : Nat}

theorem reachable_phase2 (H : Hist M G g) (V : V2 M) (W : Progress M G g) {s : SeqState σ}
    (hr : Reachable M s) : Phase1 M G g s ∨ Phase2 M G g s := by
  induction hr with
  | init => exact Or.inl (phase1_init H)
  | @step s _ _ hs ih =>
    cases hs with
    | mk e hmem hmin =>
      rcases ih with P | P
      · by_cases hlt : e.t < g
        · exact Or.inl (P.step2 H V W hmem hmin hlt)
        · exact Or.inr ((P.toPhase2' H W (late_of_minimal_late hmin (by omega))).step V.timeMono hmem)
      · exact Or.inr (P.step V.timeMono hmem)

/-- from a phase-1 state some run reaches a phase-1 state with nothing pending below `g` -/
theorem Phase1.exists_run2 (H : Hist M G g) (V : V2 M) (W : Progress M G g) :
    ∀ (n : Nat) (s : SeqState σ), Reachable M s → Phase1 M G g s →
      (restAll M.nLps s.disp).length + n = (restAll M.nLps G).length →
      ∃ s', Reachable M s' ∧ Phase1 M G g s' ∧ ∀ x ∈ s'.pending, g ≤ x.t := by
  intro n
  induction n with
  | zero =>
    intro s hr P hlen
    refine ⟨s, hr, P, ?_⟩
    intro x hx
    apply Nat.le_of_not_lt
    intro hxt
    obtain ⟨e, he, hmin⟩ := Event.exists_minimal s.pending (List.ne_nil_of_mem hx)
    have het : e.t < g := by have := Event.t_le_of_not_before (hmin x hx); omega
    have P' := P.step2 H V W he hmin het
    obtain ⟨hd, S, hS⟩ := P.next_of_minimal2 H V W he hmin het
    have hle : (restAll M.nLps (dispatch M { s with pending := s.pending.erase e } e).disp).length ≤
        (restAll M.nLps G).length := by
      apply add_flatMap_le additive_length
      intro ℓ hℓ
      rw [P'.tail_split (List.mem_range.mp hℓ), List.length_append]; omega
    have hup : (restAll M.nLps (dispatch M { s with pending := s.pending.erase e } e).disp).length =
        (restAll M.nLps s.disp).length + 1 := by
      rw [dispatch_disp]
      apply add_flatMap_upd additive_length (f := fun ℓ => (s.disp ℓ).tail)
        (f' := fun ℓ => (upd s.disp e.dest (s.disp e.dest ++ [e]) ℓ).tail) (ℓ := e.dest) _ _
        List.nodup_range (List.mem_range.mpr hd)
      · intro ℓ' _ h; rw [upd_other _ _ h]
      · rw [upd_same, List.tail_append_of_ne_nil (P.ne _ hd)]; simp
    omega
  | succ n ih =>
    intro s hr P hlen
    by_cases hl : ∀ x ∈ s.pending, g ≤ x.t
    · exact ⟨s, hr, P, hl⟩
    · have ⟨x, hx, hxt⟩ : ∃ x ∈ s.pending, x.t < g := by
        apply Classical.byContradiction
        intro hcon
        apply hl
        intro x hx
        apply Nat.le_of_not_lt
        intro hxt
        exact hcon ⟨x, hx, hxt⟩
      obtain ⟨e, he, hmin⟩ := Event.exists_minimal s.pending (List.ne_nil_of_mem hx)
      have het : e.t < g := by have := Event.t_le_of_not_before (hmin x hx); omega
      have P' := P.step2 H V W he hmin het
      obtain ⟨hd, S, hS⟩ := P.next_of_minimal2 H V W he hmin het
      have hup : (restAll M.nLps (dispatch M { s with pending := s.pending.erase e } e).disp).length =
          (restAll M.nLps s.disp).length + 1 := by
        rw [dispatch_disp]
        apply add_flatMap_upd additive_length (f := fun ℓ => (s.disp ℓ).tail)
          (f' := fun ℓ => (upd s.disp e.dest (s.disp e.dest ++ [e]) ℓ).tail) (ℓ := e.dest) _ _
          List.nodup_range (List.mem_range.mpr hd)
        · intro ℓ' _ h; rw [upd_other _ _ h]
        · rw [upd_same, List.tail_append_of_ne_nil (P.ne _ hd)]; simp
      exact ih _ (Reachable.step hr (Step.mk s e he hmin)) P' (by omega)

/-- some sequential run executes everything of the history below `g` (and nothing else) -/
theorem exists_run_to2 (H : Hist M G g) (V : V2 M) (W : Progress M G g) :
    ∃ s, Reachable M s ∧ Phase1 M G g s ∧ ∀ x ∈ s.pending, g ≤ x.t := by
  have P0 := phase1_init (g := g) H
  have hle : (restAll M.nLps (init M).disp).length ≤ (restAll M.nLps G).length := by
    apply add_flatMap_le additive_length
    intro ℓ hℓ
    rw [P0.tail_split (List.mem_range.mp hℓ), List.length_append]; omega
  exact Phase1.exists_run2 H V W ((restAll M.nLps G).length - (restAll M.nLps (init M).disp).length)
    _ Reachable.init P0 (by omega)

/-- **Prefix uniqueness under V2 + `Progress`** (same conclusion as `PrefixUnique.prefix_unique`) -/
theorem prefix_unique2 (H : Hist M G g) (V : V2 M) (W : Progress M G g) {s : SeqState σ}
    (hr : Reachable M s) {ℓ : Nat} (hℓ : ℓ < M.nLps) :
    (s.disp ℓ).filter (below g) <+: (G ℓ).filter (below g) ∧
    ((∀ x ∈ s.pending, g ≤ x.t) →
      (s.disp ℓ).filter (below g) = (G ℓ).filter (below g) ∧
      lpState M ℓ ((s.disp ℓ).filter (below g)) = lpState M ℓ ((G ℓ).filter (below g))) := by
  rcases reachable_phase2 H V W hr with P | P
  · refine ⟨List.IsPrefix.filter _ (P.pre ℓ hℓ), fun hlate => ?_⟩
    have := (P.toPhase2' H W hlate).filter_eq H hℓ
    exact ⟨this, by rw [this]⟩
  · have := P.filter_eq H hℓ
    exact ⟨by rw [this]; exact List.prefix_refl _, fun _ => ⟨this, by rw [this]⟩⟩

theorem history_unique2 {G' : Nat → List Event} (H : Hist M G g) (W : Progress M G g)
    (H' : Hist M G' g) (W' : Progress M G' g) (V : V2 M) {ℓ : Nat} (hℓ : ℓ < M.nLps) :
    (G ℓ).filter (below g) = (G' ℓ).filter (below g) ∧
    lpState M ℓ ((G ℓ).filter (below g)) = lpState M ℓ ((G' ℓ).filter (below g)) := by
  obtain ⟨s, hr, _, hl⟩ := exists_run_to2 H V W
  have h1 := ((prefix_unique2 H V W hr hℓ).2 hl).1
  have h2 := ((prefix_unique2 H' V W' hr hℓ).2 hl).1
  have := h1.symm.trans h2
  exact ⟨this, by rw [this]⟩

theorem committed_prefix2 {G' : Nat → List Event} {g' : Nat} (hg : g' ≤ g)
    (H' : Hist M G' g') (W' : Progress M G' g') (H : Hist M G g) (W : Progress M G g) (V : V2 M)
    {ℓ : Nat} (hℓ : ℓ < M.nLps) :
    (G' ℓ).filter (below g') <+: (G ℓ).filter (below g) := by
  rw [(history_unique2 H' W' (H.mono hg) (W.mono hg) V hℓ).1]
  exact tsorted_filter_prefix hg _ (H.tsorted hℓ)

theorem committed_prefix_seq2 (H : Hist M G g) (V : V2 M) (W : Progress M G g) {s : SeqState σ}
    (hr : Reachable M s) (hl : ∀ x ∈ s.pending, g ≤ x.t) {ℓ : Nat} (hℓ : ℓ < M.nLps) :
    (G ℓ).filter (below g) <+: s.disp ℓ := by
  have P : Phase2 M G g s := by
    rcases reachable_phase2 H V W hr with P | P
    · exact P.toPhase2' H W hl
    · exact P
  obtain ⟨L, hL, _⟩ := P.disp ℓ hℓ
  obtain ⟨rest, hrest⟩ := H.cons hℓ
  rw [hL, hrest]
  by_cases h0 : 0 < g
  · simp only [List.filter_cons, List.tail_cons, below, initEv, h0, decide_true, if_true,
      List.cons_prefix_cons, true_and]
    exact List.prefix_append _ _
  · have : g = 0 := by omega
    subst this
    have : List.filter (below 0) rest = [] :=
      List.filter_eq_nil_iff.mpr (by intro a _; simp [below])
    simp [below, initEv, this]

end main

end RootSim.Spec
