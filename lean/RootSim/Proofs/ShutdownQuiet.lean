import RootSim.Proofs.ShutdownMeasure
/-!
# The F1 region is deadlock-free when no GVT round is open or started after the trigger (all thread counts)

`Quiet`: termination has been decided, every thread is idle in the GVT machine, no computation is open
(`gvt_nodes = 0`, `c_a = c_b = 0`) and every thread is somewhere between the loop head and the second barrier
of `gvt_msg_drain`. `stepQ`: the steps in which thread 0 does not start a new computation from the worker
loop (`timer = false`) and `RootsimStop` is not called again. Under these two hypotheses — exactly what
finding F1 violates — some thread can always move until all threads have arrived at the second barrier
(`milestone`), i.e. until nobody is in the flush loop any more.
-/
namespace RootSim.Shutdown

/-- the steps under the hypothesis "no round is started after the trigger, no further `RootsimStop`" -/
def stepQ (v : Variant) (s : St) : Act → St
  | .run i _ vo => step v s (.run i false vo)
  | .stop _ => s
  | .zero => step v s .zero

def quietTh (t : Th) : Prop :=
  t.tph = .idle ∧
  ((t.pc = .head ∧ t.nb = 0) ∨ (t.pc = .body ∧ t.nb = 0) ∨ (t.pc = .flush ∧ t.nb = 0) ∨
   (t.pc = .barArrive 0 ∧ t.nb = 0) ∨ (t.pc = .barWait 0 ∧ t.nb = 1) ∨ (t.pc = .barArrive 1 ∧ t.nb = 1) ∨
   (t.pc = .barWait 1 ∧ t.nb = 2))

def Quiet (s : St) : Prop :=
  s.cb = 0 ∧ s.gvtNodes = 0 ∧ ∀ t ∈ s.ths, quietTh t

/-- every thread has arrived at the second barrier of the drain: nobody is in the flush loop any more -/
def milestone (s : St) : Bool := s.ths.all (fun t => decide (2 ≤ t.nb))

theorem setTh_ne (s : St) (i : Nat) (t t' : Th) (ht : s.ths[i]? = some t) (hne : t' ≠ t) : setTh s i t' ≠ s := by
  intro h
  have hi : i < s.ths.length := (List.getElem?_eq_some_iff.mp ht).1
  have h1 : (setTh s i t').ths[i]? = some t' := by simp [setTh, hi]
  rw [h, ht] at h1
  exact hne (Option.some.inj h1).symm

theorem quiet_setTh (s : St) (i : Nat) (t' : Th) (h : Quiet s) (ht' : quietTh t') : Quiet (setTh s i t') := by
  obtain ⟨h1, h2, h3⟩ := h
  refine ⟨h1, h2, ?_⟩
  intro u hu
  rcases List.mem_or_eq_of_mem_set hu with hu | rfl
  · exact h3 u hu
  · exact ht'

/-- a quiet thread's `gvt_phase_run` without timer does nothing -/
theorem gvtPhaseRun_quiet (v : Variant) (s : St) (i : Nat) (t : Th) (hq : Quiet s) (ht : t.tph = .idle) :
    gvtPhaseRun v s i t false = (s, t, false) := by
  simp [gvtPhaseRun, ht, hq.1]

/-- `Quiet` is preserved until the milestone is reached -/
theorem quiet_step (v : Variant) (hcf : v.closeFix = false) (s : St) (htr : triggered s = true) (hq : Quiet s)
    (a : Act) : Quiet (stepQ v s a) ∨ milestone (stepQ v s a) = true := by
  have hnte : ¬ s.nodesToEnd > 0 := by
    simp only [triggered, decide_eq_true_eq] at htr; omega
  cases a with
  | stop i => left; exact hq
  | zero =>
    left
    simp only [stepQ, step]
    split
    · exact ⟨hq.1, hq.2.1, hq.2.2⟩
    · exact hq
  | run i tm vo =>
    simp only [stepQ, step]
    split
    · rename_i t ht
      have htm : t ∈ s.ths := List.mem_of_getElem? ht
      obtain ⟨hidle, hpc⟩ := hq.2.2 t htm
      unfold runTh
      rcases hpc with ⟨hp, hn⟩ | ⟨hp, hn⟩ | ⟨hp, hn⟩ | ⟨hp, hn⟩ | ⟨hp, hn⟩ | ⟨hp, hn⟩ | ⟨hp, hn⟩ <;> simp only [hp]
      · left; exact quiet_setTh s i _ hq ⟨hidle, by simp [hnte, hn]⟩
      · left
        rw [gvtPhaseRun_quiet v s i t hq hidle]
        simp only [Bool.false_and, Bool.false_eq_true, if_false]
        exact quiet_setTh s i _ hq ⟨hidle, by simp [hn]⟩
      · left
        simp only [hcf, Bool.false_eq_true, if_false, hidle, ne_eq, not_true_eq_false]
        exact quiet_setTh s i _ hq ⟨by simp [hidle], by simp [hn]⟩
      · left; exact quiet_setTh s i _ hq ⟨hidle, by simp [hn]⟩
      · split
        · left; exact quiet_setTh s i _ hq ⟨hidle, by simp [afterBarrier, hn]⟩
        · left; exact hq
      · left; exact quiet_setTh s i _ hq ⟨hidle, by simp [hn]⟩
      · split
        · rename_i hall
          right
          -- the thread leaves the second barrier: every thread has arrived there
          simp only [milestone, setTh, List.all_eq_true, decide_eq_true_eq]
          intro u hu
          rcases List.mem_or_eq_of_mem_set hu with hu | rfl
          · have := List.all_eq_true.mp hall u hu
            simp only [decide_eq_true_eq] at this; omega
          · simp [hn]
        · left; exact hq
    · left; exact hq

/-- **Deadlock-freedom of the F1 region** (all thread counts): in a quiet state in which termination has been
decided and the milestone is not yet reached, some thread's step changes the state, whatever the schedule's
choices for it. -/
theorem quiet_live (v : Variant) (hcf : v.closeFix = false) (s : St) (htr : triggered s = true) (hq : Quiet s)
    (hm : milestone s = false) :
    ∃ i, i < s.n ∧ ∀ a, owns a i → stepQ v s a ≠ s := by
  have hnte : ¬ s.nodesToEnd > 0 := by
    simp only [triggered, decide_eq_true_eq] at htr; omega
  -- a thread that has not arrived at the second barrier exists
  have hex : ∃ t ∈ s.ths, t.nb < 2 := by
    simp only [milestone, Bool.eq_false_iff, ne_eq, List.all_eq_true, decide_eq_true_eq] at hm
    by_cases h : ∃ t ∈ s.ths, t.nb < 2
    · exact h
    · exfalso; apply hm; intro t ht
      by_cases h2 : 2 ≤ t.nb
      · exact h2
      · exact absurd ⟨t, ht, by omega⟩ h
  -- every thread has arrived at least as far as the smallest count: choose a thread with minimal `nb`
  -- case 1: some thread is not inside a barrier: it can move
  by_cases hfree : ∃ t ∈ s.ths, ¬ (t.pc = .barWait 0 ∨ t.pc = .barWait 1)
  · obtain ⟨t, htm, hnb⟩ := hfree
    obtain ⟨i, hi, hit⟩ := List.getElem_of_mem htm
    have ht : s.ths[i]? = some t := by rw [List.getElem?_eq_getElem hi, hit]
    refine ⟨i, hi, ?_⟩
    intro a ha
    cases a with
    | stop j => exact absurd ha (by simp [owns])
    | zero => exact absurd ha (by simp [owns])
    | run j tm vo =>
      have : j = i := ha
      subst this
      obtain ⟨hidle, hpc⟩ := hq.2.2 t htm
      simp only [stepQ, step, ht]
      unfold runTh
      rcases hpc with ⟨hp, hn⟩ | ⟨hp, hn⟩ | ⟨hp, hn⟩ | ⟨hp, hn⟩ | ⟨hp, hn⟩ | ⟨hp, hn⟩ | ⟨hp, hn⟩ <;> simp only [hp]
      · exact setTh_ne s j t _ ht (by intro h; have := congrArg Th.pc h; simp [hp, hnte] at this)
      · rw [gvtPhaseRun_quiet v s j t hq hidle]
        simp only [Bool.false_and, Bool.false_eq_true, if_false]
        exact setTh_ne s j t _ ht (by intro h; have := congrArg Th.pc h; simp [hp] at this)
      · simp only [hcf, Bool.false_eq_true, if_false, hidle, ne_eq, not_true_eq_false]
        exact setTh_ne s j t _ ht (by intro h; have := congrArg Th.pc h; simp [hp] at this)
      · exact setTh_ne s j t _ ht (by intro h; have := congrArg Th.pc h; simp [hp] at this)
      · exact absurd (Or.inl hp) hnb
      · exact setTh_ne s j t _ ht (by intro h; have := congrArg Th.pc h; simp [hp] at this)
      · exact absurd (Or.inr hp) hnb
  · -- case 2: every thread is inside the first or the second barrier; one in the first can leave it
    have hall : ∀ t ∈ s.ths, (t.pc = .barWait 0 ∧ t.nb = 1) ∨ (t.pc = .barWait 1 ∧ t.nb = 2) := by
      intro t ht
      have hb : t.pc = .barWait 0 ∨ t.pc = .barWait 1 := by
        by_cases h : t.pc = .barWait 0 ∨ t.pc = .barWait 1
        · exact h
        · exact absurd ⟨t, ht, h⟩ hfree
      obtain ⟨_, hpc⟩ := hq.2.2 t ht
      rcases hpc with ⟨hp, hn⟩ | ⟨hp, hn⟩ | ⟨hp, hn⟩ | ⟨hp, hn⟩ | ⟨hp, hn⟩ | ⟨hp, hn⟩ | ⟨hp, hn⟩
      all_goals first
        | exact Or.inl ⟨hp, hn⟩
        | exact Or.inr ⟨hp, hn⟩
        | (rcases hb with hb | hb <;> rw [hp] at hb <;> cases hb)
    obtain ⟨t, htm, hlt⟩ := hex
    obtain ⟨i, hi, hit⟩ := List.getElem_of_mem htm
    have ht : s.ths[i]? = some t := by rw [List.getElem?_eq_getElem hi, hit]
    have htb : t.pc = .barWait 0 ∧ t.nb = 1 := by
      rcases hall t htm with h | h
      · exact h
      · omega
    refine ⟨i, hi, ?_⟩
    intro a ha
    cases a with
    | stop j => exact absurd ha (by simp [owns])
    | zero => exact absurd ha (by simp [owns])
    | run j tm vo =>
      have : j = i := ha
      subst this
      simp only [stepQ, step, ht]
      unfold runTh
      simp only [htb.1]
      have hpass : s.ths.all (fun u => decide (t.nb ≤ u.nb)) = true := by
        rw [List.all_eq_true]; intro u hu
        rcases hall u hu with h | h <;> simp [htb.2, h.2]
      rw [if_pos hpass]
      exact setTh_ne s j t _ ht (by intro h; have := congrArg Th.pc h; simp [htb.1, afterBarrier] at this)

end RootSim.Shutdown
