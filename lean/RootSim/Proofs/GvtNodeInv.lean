import RootSim.Proofs.GvtNodeBasic
/-! The invariant of one round of the node-level GVT message counting (`old` = colour of every thread
at the beginning of the round). -/
namespace RootSim.GvtNode

/-- what node `nd` has put (or will put) into the reduce-scatter: the deposited snapshot once it exists,
`total_sent` before -/
def eff (nd : Node) : List Nat := nd.contrib.getD nd.totalSent

/-- old-colour sends to `k` already added to some `total_sent` -/
def reportedTo (s : St) (k : Nat) : Nat := sumBy (fun nd => (eff nd).count k) s.nodes
/-- old-colour sends to `k` not yet reported by their sender -/
def unreportedTo (old : Bool) (s : St) (k : Nat) : Nat :=
  sumBy (fun th => (th.unrep.get old).count k) s.thr
/-- old-colour messages received at node `k` and not yet polled -/
def unpolledAt (old : Bool) (s : St) (k : Nat) : Nat :=
  sumBy (fun th => if th.node = k then th.recv.get old else 0) s.thr
/-- old-colour messages in flight to `k` -/
def flightTo (old : Bool) (s : St) (k : Nat) : Nat :=
  s.flight.countP fun m => m.colour = old && m.dest = k

/-- number of threads of node `k` -/
def nThr (s : St) (k : Nat) : Nat := s.thr.countP fun th => th.node = k
/-- number of threads of node `k` that executed `node_sent_reduce` -/
def nReported (s : St) (k : Nat) : Nat := s.thr.countP fun th => th.node = k && th.stage.reported
/-- number of threads of node `k` in `node_sent_reduce_wait` -/
def nRedWait (s : St) (k : Nat) : Nat := s.thr.countP fun th => th.node = k && th.stage = .reduceWait

structure ThrOK (old : Bool) (K : Nat) (th : Thr) : Prop where
  node_lt : th.node < K
  col_pre : th.stage = .redux1 → th.colour = old
  col_post : th.stage ≠ .redux1 → th.colour = !old
  unrep_nil : th.stage.reported = true → th.unrep.get old = []

structure NodeOK (old : Bool) (s : St) (k : Nat) (nd : Node) : Prop where
  nthr : nThr s k = s.N
  cc_eq : nd.cc = nReported s k
  redwait : nRedWait s k = if nd.contrib.isSome ∧ nd.subtracted = false then 1 else 0
  /-- the counting invariant for `total_msg_received` -/
  recv_eq : nd.totalRecv = (nd.cc : Int) + nd.polled
              - (if nd.subtracted then ((nd.toReceive.getD 0 : Nat) : Int) + s.N else 0)
  contrib_iff : nd.contrib.isSome ↔ nd.cc = s.N
  sub : nd.subtracted = true → allContrib s = true ∧ nd.toReceive = some (scatter s k)
  /-- the counting invariant for sent / received / in flight -/
  balance : reportedTo s k + unreportedTo old s k = nd.polled + unpolledAt old s k + flightTo old s k

structure Inv (old : Bool) (s : St) : Prop where
  thr : ∀ (t : Nat) th, s.thr[t]? = some th → ThrOK old s.nodes.length th
  node : ∀ (k : Nat) nd, s.nodes[k]? = some nd → NodeOK old s k nd

/-- start of a round: every thread still has the old colour and has not started; node counters are
clear; old-colour messages may already be in flight / received, consistently counted -/
structure RoundStart (old : Bool) (s : St) : Prop where
  thr : ∀ th ∈ s.thr, th.node < s.nodes.length ∧ th.colour = old ∧ th.stage = .redux1
  nthr : ∀ k, k < s.nodes.length → nThr s k = s.N
  npos : 0 < s.N
  node : ∀ nd ∈ s.nodes, nd = {}
  balance : ∀ k, k < s.nodes.length → unreportedTo old s k = unpolledAt old s k + flightTo old s k
  /-- counted destinations are node ids -/
  dest : ∀ th ∈ s.thr, ∀ c, ∀ d ∈ th.unrep.get c, d < s.nodes.length
  /-- the threads of a node are numbered `0 .. N-1` (`rid`) -/
  rids : ∀ k, k < s.nodes.length → ∀ r, r < s.N → ∃ th ∈ s.thr, th.node = k ∧ th.rid = r

end RootSim.GvtNode
