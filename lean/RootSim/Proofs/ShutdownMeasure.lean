import RootSim.Proofs.Shutdown
/-!
# Progress measure for the shutdown path (C08, part (i)) — all thread counts

For the variants WITHOUT `closeFix` (the pinned drain), after termination has been decided, every step of a
thread that changes the state strictly decreases `measure`, provided a GVT computation is recognised as
finished (`zeroFix`, or no time-stamp-0 message is queued). The measure is a sum of per-thread distances:
every thread runs through a straight-line program (rest of the loop iteration, flush loop, two
barriers, two forced GVT computations, barrier, `lp_fini`, barrier), and every guard only delays it.
-/
namespace RootSim.Shutdown

/-- remaining calls of `gvt_phase_run` until the current GVT computation is over for this thread -/
def rho (t : Th) : Nat :=
  match t.nph with
  | .done => 1 | .minReduceWait => 2 | .minWait => 2 | .minReduce => 3
  | .reduxSecond => (match t.tph with | .D => 4 | .C => 5 | .B => 6 | .A => 7 | .idle => 7)
  | .sentWait => 8 | .sentReduceWait => 9 | .sentReduce => 10
  | .reduxFirst => (match t.tph with | .D => 11 | .C => 12 | .B => 13 | .A => 14 | .idle => 0)

/-- the same inside a forced round of the drain, where a left-over `node_done` and the joining of the
forced computation come first -/
def psiA (t : Th) : Nat := if t.nph = .done then 16 else rho t
def psi (t : Th) : Nat := if t.tph = .idle then 1 + psiA { t with tph := .A } else psiA t

/-- distance of a thread from the end of `worker_thread_fini` -/
def dist (t : Th) : Nat :=
  match t.pc with
  | .done => 0
  | .barWait k => if 3 ≤ k then 1 else if k = 2 then 4 else if k = 1 then 39 else 41
  | .barArrive k => if 3 ≤ k then 2 else if k = 2 then 5 else if k = 1 then 40 else 42
  | .lpfini => 3
  | .forced k => (if k = 0 then 21 else 5) + psi t
  | .flush => 43 + rho t
  | .head => 60 + rho t
  | .body => 80

def measure (s : St) : Nat := 2 * (s.ths.map dist).sum + (if s.zq then 1 else 0)

theorem sum_set_lt (l : List Th) (i : Nat) (t t' : Th) (h : l[i]? = some t) (hlt : dist t' < dist t) :
    ((l.set i t').map dist).sum < (l.map dist).sum := by
  induction l generalizing i with
  | nil => cases h
  | cons x xs ih =>
    cases i with
    | zero =>
      simp only [List.getElem?_cons_zero, Option.some.injEq] at h
      subst h
      simp only [List.set_cons_zero, List.map_cons, List.sum_cons]; omega
    | succ i =>
      simp only [List.getElem?_cons_succ] at h
      have := ih i h
      simp only [List.set_cons_succ, List.map_cons, List.sum_cons]; omega

/-- `gvt_thread_phase_run`: a spin, or one phase forward -/
theorem threadPhase_cases (s : St) (t : Th) :
    (threadPhase s t = (s, t, false)) ∨
    (∃ s1 t1 r, threadPhase s t = (s1, t1, r) ∧ s1.ths = s.ths ∧ s1.zq = s.zq ∧ s1.nodesToEnd = s.nodesToEnd ∧
      t1.pc = t.pc ∧ t1.nph = t.nph ∧ t1.nb = t.nb ∧ t1.fini = t.fini ∧
      ((t.tph = .A ∧ t1.tph = .B ∧ r = false) ∨ (t.tph = .B ∧ t1.tph = .C ∧ r = false) ∨
       (t.tph = .C ∧ t1.tph = .D ∧ r = false) ∨ (t.tph = .D ∧ t1.tph = .idle ∧ r = true))) := by
  unfold threadPhase
  cases h : t.tph <;> simp only
  · left; trivial
  all_goals
    split
    · left; rfl
    · right; exact ⟨_, _, _, rfl, rfl, rfl, rfl, rfl, rfl, rfl, rfl, by simp [h]⟩

/-- `gvt_node_phase_run`: a spin, or `rho` decreases; it reports completion exactly when it moves to `node_done` -/
theorem nodePhase_cases (s : St) (t : Th) (hni : t.tph ≠ .idle) :
    (nodePhase s t = (s, t, false)) ∨
    (∃ s1 t1 r, nodePhase s t = (s1, t1, r) ∧ s1.ths = s.ths ∧ s1.zq = s.zq ∧ s1.nodesToEnd = s.nodesToEnd ∧
      t1.pc = t.pc ∧ t1.nb = t.nb ∧ t1.fini = t.fini ∧ rho t1 < rho t ∧
      (r = true → t1.nph = .done ∧ rho t = 2 ∧ t.nph ≠ .done) ∧
      (t.nph = .done → t1.tph = .idle ∧ t1.nph = .reduxFirst) ∧ (t.nph ≠ .done → t1.tph ≠ .idle) ∧
      (r = false → t.nph ≠ .done → t1.nph ≠ .done)) := by
  unfold nodePhase
  cases h : t.nph <;> simp only
  case reduxFirst =>
    rcases threadPhase_cases s t with hsp | ⟨s1, t1, r, he, h1, h2, h3, h4, h5, h6, h7, hc⟩
    · left; rw [hsp]; rfl
    · right
      rw [he]
      rcases hc with ⟨ha, hb, rfl⟩ | ⟨ha, hb, rfl⟩ | ⟨ha, hb, rfl⟩ | ⟨ha, hb, rfl⟩
      all_goals
        refine ⟨_, _, _, rfl, ?_⟩
        simp [rho, h, h5, ha, hb, h1, h2, h3, h4, h6, h7, NPh.next]
  case reduxSecond =>
    rcases threadPhase_cases s t with hsp | ⟨s1, t1, r, he, h1, h2, h3, h4, h5, h6, h7, hc⟩
    · left; rw [hsp]; rfl
    · right
      rw [he]
      rcases hc with ⟨ha, hb, rfl⟩ | ⟨ha, hb, rfl⟩ | ⟨ha, hb, rfl⟩ | ⟨ha, hb, rfl⟩
      all_goals
        refine ⟨_, _, _, rfl, ?_⟩
        simp [rho, h, h5, ha, hb, h1, h2, h3, h4, h6, h7, NPh.next]
  case sentReduce =>
    split
    · left; rfl
    · right; split <;> exact ⟨_, _, _, rfl, by simp [rho, h, hni]⟩
  case sentReduceWait => right; exact ⟨_, _, _, rfl, by simp [rho, h, hni]⟩
  case sentWait =>
    split
    · left; rfl
    · right; exact ⟨_, _, _, rfl, by cases ht : t.tph <;> simp [rho, h, ht] at hni ⊢⟩
  case minReduce => right; split <;> exact ⟨_, _, _, rfl, by simp [rho, h, hni]⟩
  case minReduceWait =>
    split
    · left; rfl
    · right; exact ⟨_, _, _, rfl, by simp [rho, h, hni]⟩
  case minWait =>
    split
    · left; rfl
    · right; exact ⟨_, _, _, rfl, by simp [rho, h, hni]⟩
  case done =>
    right
    split <;> exact ⟨_, _, _, rfl, by simp [rho, h, hni]⟩


theorem rho_le (t : Th) : rho t ≤ 14 := by
  unfold rho; cases t.nph <;> cases t.tph <;> simp

theorem psiA_le (t : Th) : psiA t ≤ 16 := by
  unfold psiA; split
  · exact Nat.le_refl _
  · have := rho_le t; omega

theorem psi_le (t : Th) : psi t ≤ 17 := by
  unfold psi; split
  · have := psiA_le { t with tph := .A }; omega
  · have := psiA_le t; omega

/-- `gvt_phase_run`: a spin; or an idle thread joins / starts a computation; or the computation advances -/
theorem gvtPhaseRun_cases (v : Variant) (s : St) (i : Nat) (t : Th) (tm : Bool) :
    (gvtPhaseRun v s i t tm = (s, t, false)) ∨
    (∃ s1 t1 got, gvtPhaseRun v s i t tm = (s1, t1, got) ∧ s1.ths = s.ths ∧ s1.zq = s.zq ∧
      s1.nodesToEnd = s.nodesToEnd ∧ t1.pc = t.pc ∧ t1.nb = t.nb ∧ t1.fini = t.fini ∧
      ((t.tph = .idle ∧ t1 = { t with tph := .A } ∧ got = false) ∨
       (t.tph ≠ .idle ∧ rho t1 < rho t ∧
        (got = true → t1.nph = .done ∧ rho t = 2 ∧ t.nph ≠ .done) ∧
        (t.nph = .done → t1.tph = .idle ∧ t1.nph = .reduxFirst) ∧ (t.nph ≠ .done → t1.tph ≠ .idle) ∧
        (got = false → (v.zeroFix = true ∨ s.zq = false) → t.nph ≠ .done → t1.nph ≠ .done)))) := by
  unfold gvtPhaseRun
  by_cases hni : t.tph ≠ .idle
  · rw [if_pos hni]
    rcases nodePhase_cases s t hni with hsp | ⟨s1, t1, r, he, h1, h2, h3, h4, h5, h6, h7, h8, h9, h10, h11⟩
    · left; rw [hsp]; rfl
    · right
      rw [he]
      refine ⟨s1, t1, r && (v.zeroFix || !s.zq), rfl, h1, h2, h3, h4, h5, h6, Or.inr ⟨hni, h7, ?_, h9, h10, ?_⟩⟩
      · intro hg
        simp only [Bool.and_eq_true] at hg
        exact h8 hg.1
      · intro hg hz hnd
        cases r
        · exact h11 rfl hnd
        · rcases hz with hz | hz <;> simp [hz] at hg
  · rw [if_neg hni]
    have hi : t.tph = .idle := by
      cases h : t.tph <;> simp [h] at hni ⊢
    by_cases hcb : s.cb ≠ 0
    · right
      rw [if_pos hcb]
      by_cases hst : i = 0 ∧ tm = true ∧ s.gvtNodes = 0
      · rw [if_pos hst]
        exact ⟨_, _, _, rfl, rfl, rfl, rfl, rfl, rfl, rfl, Or.inl ⟨hi, rfl, rfl⟩⟩
      · rw [if_neg hst]
        exact ⟨_, _, _, rfl, rfl, rfl, rfl, rfl, rfl, rfl, Or.inl ⟨hi, rfl, rfl⟩⟩
    · rw [if_neg hcb]
      by_cases hst : i = 0 ∧ tm = true ∧ s.gvtNodes = 0
      · right
        rw [if_pos hst]
        exact ⟨_, _, _, rfl, rfl, rfl, rfl, rfl, rfl, rfl, Or.inl ⟨hi, rfl, rfl⟩⟩
      · left; rw [if_neg hst]


theorem setTh_self (s : St) (i : Nat) (t : Th) (h : s.ths[i]? = some t) : setTh s i t = s := by
  have hi : i < s.ths.length := (List.getElem?_eq_some_iff.mp h).1
  have hg : s.ths[i] = t := (List.getElem?_eq_some_iff.mp h).2
  unfold setTh
  have : s.ths.set i t = s.ths := by rw [← hg]; exact List.set_getElem_self hi
  rw [this]

/-- **Per-thread progress**: after the trigger (pinned drain), a step of thread `i` either leaves the state
unchanged or replaces thread `i` by a thread state of strictly smaller distance, leaves the other
threads, `zq` alone and does not increase `nodes_to_end`. -/
theorem runTh_dist (v : Variant) (hcf : v.closeFix = false) (s : St) (htr : triggered s = true)
    (hz : v.zeroFix = true ∨ s.zq = false) (i : Nat) (t : Th) (tm vo : Bool) (ht : s.ths[i]? = some t) :
    runTh v s i t tm vo = s ∨
    ∃ s1 t1, runTh v s i t tm vo = setTh s1 i t1 ∧ s1.ths = s.ths ∧ s1.zq = s.zq ∧
      s1.nodesToEnd ≤ s.nodesToEnd ∧ dist t1 < dist t := by
  have hnte : ¬ s.nodesToEnd > 0 := by
    simp only [triggered, decide_eq_true_eq] at htr; omega
  unfold runTh
  cases hpc : t.pc <;> simp only
  case head =>
    right
    refine ⟨s, _, rfl, rfl, rfl, Int.le_refl _, ?_⟩
    simp [dist, hpc, hnte, rho]
  case body =>
    right
    rcases gvtPhaseRun_cases v s i t tm with hsp | ⟨s1, t1, got, he, h1, h2, h3, h4, h5, h6, _⟩
    · rw [hsp]
      simp only [Bool.false_and, Bool.false_eq_true, if_false]
      refine ⟨s, _, rfl, rfl, rfl, Int.le_refl _, ?_⟩
      have := rho_le t
      simp only [dist, hpc, rho] at this ⊢; omega
    · rw [he]
      simp only
      split
      · refine ⟨_, _, rfl, ?_, ?_, ?_, ?_⟩
        · split <;> simp [h1]
        · split <;> simp [h2]
        · split <;> simp [h3] <;> omega
        · have := rho_le { t1 with pc := Pc.head, voted := true }
          simp only [dist, hpc, rho] at this ⊢; omega
      · refine ⟨s1, _, rfl, h1, h2, by omega, ?_⟩
        have := rho_le { t1 with pc := Pc.head }
        simp only [dist, hpc, rho] at this ⊢; omega
  case flush =>
    simp only [hcf, Bool.false_eq_true, if_false]
    by_cases hni : t.tph ≠ .idle
    · rw [if_pos hni]
      rcases gvtPhaseRun_cases v s i t tm with hsp | ⟨s1, t1, got, he, h1, h2, h3, h4, h5, h6, hc⟩
      · left; rw [hsp]; exact setTh_self s i t ht
      · right
        rw [he]
        rcases hc with ⟨hi, _, _⟩ | ⟨_, hlt, _⟩
        · exact absurd hi hni
        · refine ⟨s1, t1, rfl, h1, h2, by omega, ?_⟩
          simp only [dist, hpc, h4]; omega
    · rw [if_neg hni]
      right
      refine ⟨s, _, rfl, rfl, rfl, Int.le_refl _, ?_⟩
      simp [dist, hpc]; omega
  case barArrive k =>
    right
    refine ⟨s, _, rfl, rfl, rfl, Int.le_refl _, ?_⟩
    simp only [dist, hpc]
    by_cases h3 : 3 ≤ k
    · simp [h3]
    · by_cases h2 : k = 2
      · simp [h2]
      · by_cases h1 : k = 1
        · simp [h1]
        · simp [h3, h2, h1]
  case barWait k =>
    split
    · right
      refine ⟨s, _, rfl, rfl, rfl, Int.le_refl _, ?_⟩
      have hp := psi_le t
      have hpsi : psi { t with pc := Pc.forced 0 } = psi t := rfl
      match k with
      | 0 => simp [dist, hpc, afterBarrier]
      | 1 => simp only [dist, hpc, afterBarrier]; rw [hpsi]; simp; omega
      | 2 => simp [dist, hpc, afterBarrier]
      | k + 3 => simp [dist, hpc, afterBarrier]
    · left; rfl
  case forced k =>
    rcases gvtPhaseRun_cases v s i t true with hsp | ⟨s1, t1, got, he, h1, h2, h3, h4, h5, h6, hc⟩
    · left; rw [hsp]; simp only [Bool.false_eq_true, if_false]; exact setTh_self s i t ht
    · right
      rw [he]
      simp only
      rcases hc with ⟨hi, ht1, hg⟩ | ⟨hni, hlt, hgot, hdone, hnd, hng⟩
      · subst hg; subst ht1
        refine ⟨s1, _, rfl, h1, h2, by omega, ?_⟩
        simp only [Bool.false_eq_true, if_false, dist, hpc, psi, hi, if_true]
        simp
      · refine ⟨s1, _, rfl, h1, h2, by omega, ?_⟩
        cases hg : got
        · -- not finished: `psi` decreases
          simp only [Bool.false_eq_true, if_false, dist, hpc, h4]
          have hz' : v.zeroFix = true ∨ s.zq = false := hz
          by_cases hd : t.nph = .done
          · obtain ⟨hti, htn⟩ := hdone hd
            simp [psi, psiA, hti, htn, hd, hni, rho]
          · have h1n := hnd hd
            have h1d := hng hg hz' hd
            simp only [psi, psiA, h1n, h1d, hd, hni, if_false]; omega
        · -- finished: the thread leaves the loop
          obtain ⟨h1d, hr2, hnd'⟩ := hgot hg
          have h1n := hnd hnd'
          have hpsi : psi t = 2 := by simp [psi, psiA, hni, hnd', hr2]
          simp only [if_true]
          by_cases hk : k = 0
          · subst hk
            simp only [if_true, dist, hpc, hpsi]
            simp [psi, psiA, h1n, h1d]
          · simp only [hk, if_false, dist, hpc, hpsi]; simp
  case lpfini =>
    right
    refine ⟨s, _, rfl, rfl, rfl, Int.le_refl _, ?_⟩
    simp [dist, hpc]
  case done => left; trivial


theorem measure_setTh (s s1 : St) (i : Nat) (t t1 : Th) (ht : s.ths[i]? = some t) (h1 : s1.ths = s.ths)
    (h2 : s1.zq = s.zq) (hlt : dist t1 < dist t) : measure (setTh s1 i t1) < measure s := by
  have := sum_set_lt s.ths i t t1 ht hlt
  simp only [measure, setTh, h1, h2]; omega

/-- **(i) Progress measure, all thread counts** (variants without `closeFix`; `RootsimStop` is not called again):
after the trigger every step either leaves the state unchanged or strictly decreases `measure`; the
side conditions are stable. -/
theorem step_measure (v : Variant) (hcf : v.closeFix = false) (s : St) (htr : triggered s = true)
    (hz : v.zeroFix = true ∨ s.zq = false) (a : Act) (hns : ∀ i, a ≠ .stop i) :
    step v s a = s ∨
    (measure (step v s a) < measure s ∧ triggered (step v s a) = true ∧
      (v.zeroFix = true ∨ (step v s a).zq = false) ∧ (step v s a).n = s.n) := by
  cases a with
  | stop i => exact absurd rfl (hns i)
  | zero =>
    simp only [step]
    split
    · cases hzq : s.zq
      · left
        cases s; simp_all
      · right
        refine ⟨?_, ?_, ?_, rfl⟩
        · simp [measure, hzq]
        · exact htr
        · rcases hz with h | h
          · exact Or.inl h
          · rw [hzq] at h; cases h
    · left; rfl
  | run i tm vo =>
    simp only [step]
    split
    · rename_i t ht
      rcases runTh_dist v hcf s htr hz i t tm vo ht with h | ⟨s1, t1, he, h1, h2, h3, hlt⟩
      · left; exact h
      · right
        rw [he]
        refine ⟨measure_setTh s s1 i t t1 ht h1 h2 hlt, ?_, ?_, ?_⟩
        · have hle : s1.nodesToEnd ≤ 0 := by
            simp only [triggered, decide_eq_true_eq] at htr; omega
          simp [triggered, setTh, hle]
        · simp only [setTh, h2]; exact hz
        · simp [St.n, setTh, h1]
    · left; rfl

/-! ### `LP_FINI` exactly once (all variants, all thread counts) -/

/-- `lp_fini()` has run iff the thread is past it -/
def finiOk (t : Th) : Prop :=
  t.fini = (if t.pc = .barArrive 3 ∨ t.pc = .barWait 3 ∨ t.pc = .done then 1 else 0) ∧
  (∀ k, t.pc = .barArrive k → k ≤ 3) ∧ (∀ k, t.pc = .barWait k → k ≤ 3)

theorem gvtPhaseRun_keeps (v : Variant) (s : St) (i : Nat) (t : Th) (tm : Bool) :
    (gvtPhaseRun v s i t tm).1.ths = s.ths ∧ (gvtPhaseRun v s i t tm).2.1.pc = t.pc ∧
    (gvtPhaseRun v s i t tm).2.1.fini = t.fini := by
  rcases gvtPhaseRun_cases v s i t tm with h | ⟨s1, t1, got, he, h1, _, _, h4, _, h6, _⟩
  · rw [h]; exact ⟨rfl, rfl, rfl⟩
  · rw [he]; exact ⟨h1, h4, h6⟩

theorem runTh_finiOk (v : Variant) (s : St) (i : Nat) (t : Th) (tm vo : Bool) (hok : finiOk t) :
    runTh v s i t tm vo = s ∨ ∃ t1, (runTh v s i t tm vo).ths = s.ths.set i t1 ∧ finiOk t1 := by
  obtain ⟨hf, hba, hbw⟩ := hok
  unfold runTh
  cases hpc : t.pc <;> simp only
  case head =>
    right
    refine ⟨_, rfl, ?_⟩
    simp only [hpc] at hf
    split <;> simp [finiOk, hf]
  case body =>
    obtain ⟨h1, h2, h3⟩ := gvtPhaseRun_keeps v s i t tm
    generalize gvtPhaseRun v s i t tm = r at h1 h2 h3
    obtain ⟨s1, t1, got⟩ := r
    simp only at h1 h2 h3 ⊢
    simp only [hpc] at hf
    right
    split
    · refine ⟨{ t1 with pc := Pc.head, voted := true }, ?_, ?_⟩
      · split <;> simp [setTh, h1]
      · simp [finiOk, h3, hf]
    · exact ⟨{ t1 with pc := Pc.head }, by simp [setTh, h1], by simp [finiOk, h3, hf]⟩
  case flush =>
    obtain ⟨h1, h2, h3⟩ := gvtPhaseRun_keeps v s i t false
    obtain ⟨h1', h2', h3'⟩ := gvtPhaseRun_keeps v s i t tm
    simp only [hpc] at hf
    have hstay : ∀ (r : St × Th × Bool), r.1.ths = s.ths → r.2.1.pc = t.pc → r.2.1.fini = t.fini →
        (setTh r.1 i r.2.1).ths = s.ths.set i r.2.1 ∧ finiOk r.2.1 := by
      intro r a b c
      refine ⟨by simp [setTh, a], ?_⟩
      simp [finiOk, b, c, hpc, hf]
    have hexit : finiOk { t with pc := Pc.barArrive 0 } := by simp [finiOk, hf]
    split
    · split
      · split
        · exact Or.inr ⟨_, hstay _ h1 h2 h3⟩
        · split
          · exact Or.inl rfl
          · exact Or.inr ⟨_, rfl, hexit⟩
      · split
        · exact Or.inr ⟨_, hstay _ h1 h2 h3⟩
        · exact Or.inr ⟨_, rfl, hexit⟩
    · split
      · exact Or.inr ⟨_, hstay _ h1' h2' h3'⟩
      · exact Or.inr ⟨_, rfl, hexit⟩
  case barArrive k =>
    right
    refine ⟨_, rfl, ?_⟩
    have hk := hba k hpc
    simp only [hpc] at hf
    refine ⟨?_, by simp, ?_⟩
    · simp only [Pc.barWait.injEq, reduceCtorEq, or_false, false_or]
      simp only [Pc.barArrive.injEq, reduceCtorEq, or_false] at hf
      exact hf
    · intro k' hk'; simp only [Pc.barWait.injEq] at hk'; omega
  case barWait k =>
    have hk := hbw k hpc
    simp only [hpc] at hf
    split
    · right
      refine ⟨_, rfl, ?_⟩
      match k with
      | 0 => simp [finiOk, afterBarrier] at hf ⊢; exact hf
      | 1 => simp [finiOk, afterBarrier] at hf ⊢; exact hf
      | 2 => simp [finiOk, afterBarrier] at hf ⊢; exact hf
      | 3 => simp [finiOk, afterBarrier] at hf ⊢; exact hf
      | k + 4 => omega
    · exact Or.inl rfl
  case forced k =>
    obtain ⟨h1, h2, h3⟩ := gvtPhaseRun_keeps v s i t true
    generalize gvtPhaseRun v s i t true = r at h1 h2 h3
    obtain ⟨s1, t1, got⟩ := r
    simp only at h1 h2 h3 ⊢
    simp only [hpc] at hf
    right
    refine ⟨(if got = true then { t1 with pc := if k = 0 then Pc.forced 1 else Pc.barArrive 2 } else t1),
      by simp [setTh, h1], ?_⟩
    split
    · split <;> simp [finiOk, h3, hf]
    · simp [finiOk, h2, h3, hpc, hf]
  case lpfini =>
    simp only [hpc] at hf
    exact Or.inr ⟨_, rfl, by simp [finiOk, hf]⟩
  case done => exact Or.inl trivial

theorem step_finiOk (v : Variant) (s : St) (a : Act) (h : ∀ t ∈ s.ths, finiOk t) : ∀ t ∈ (step v s a).ths, finiOk t := by
  cases a with
  | stop i =>
    simp only [step]
    split
    · split
      · exact h
      · exact h
    · exact h
  | zero => simp only [step]; split <;> exact h
  | run i tm vo =>
    simp only [step]
    split
    · rename_i t ht
      rcases runTh_finiOk v s i t tm vo (h t (List.mem_of_getElem? ht)) with he | ⟨t1, he, hok⟩
      · rw [he]; exact h
      · rw [he]
        intro u hu
        rcases List.mem_or_eq_of_mem_set hu with hu | rfl
        · exact h u hu
        · exact hok
    · exact h

theorem reach_finiOk (v : Variant) (n : Nat) (zq : Bool) (s : St) (h : Reach v n zq s) : ∀ t ∈ s.ths, finiOk t := by
  induction h with
  | init =>
    intro t ht
    simp only [St.init, List.mem_replicate] at ht
    rw [ht.2]; simp [finiOk]
  | step a _ ih => exact step_finiOk v _ a ih

/-- when every thread has returned, `lp_fini()` ran exactly once on each -/
theorem final_finiOnce (s : St) (h : ∀ t ∈ s.ths, finiOk t) (hf : final s = true) : finiOnce s = true := by
  simp only [final, List.all_eq_true, beq_iff_eq] at hf
  simp only [finiOnce, List.all_eq_true, beq_iff_eq]
  intro t ht
  have := (h t ht).1
  rw [hf t ht] at this
  simpa using this

end RootSim.Shutdown
