import RootSim.Model.MsgAutoRemote
import RootSim.Proofs.MsgAuto
/-!
Reachable state space of the remote per-message automaton (computed by search, *checked* by the kernel:
contains the initial state, closed under every action, every state satisfies `GoodR` / `ProgR`),
and the arithmetic facts about the id stamping of `gvt/gvt.h`.
-/
namespace RootSim.MsgAuto

def RR : List RState :=
  (bfsBy RState.code RState.decode rsuccs 200 [RState.init.code] [RState.init.code]).map RState.decode

def rclosed (l : List RState) : Bool := closedBy RState.code rsuccs l

def rrank (s : RState) : Nat :=
  40 * ((if s.posFlight then 1 else 0) + (if s.antiFlight then 1 else 0)) +
  16 * (if s.rpend then 1 else 0) + 12 * (s.rq + s.aq) +
  (match s.pc with | .idle => 0 | .handR => 10 | .procR => 8 | .earlyM => 1 | .handA => 10 | .rbA => 6 | .freeRA => 1) +
  (if s.rHist then 2 else 0) + (if s.aEarly then 3 else 0) + (if s.sref then 1 else 0) + (if s.sAtGvt then 1 else 0)

def risSys (s : RState) (a : RAct) : Bool := !a.isEnv || (a == .unprocessR && s.pc == .rbA)

def onR (p : XPc) : Bool := p == .handR || p == .procR || p == .earlyM || p == .rbA || p == .freeRA
def onA (p : XPc) : Bool := p == .handA || p == .earlyM || p == .rbA || p == .freeRA

/-- Safety facts of the remote automaton, part A: no double release, no use of a released buffer -/
def GoodRA (s : RState) : Prop :=
  s.err = false ∧
  -- no buffer released twice
  s.sLife ≠ .dfreed ∧ s.rLife ≠ .dfreed ∧ s.aLife ≠ .dfreed ∧
  -- at most one queue copy of each
  s.rq ≤ 1 ∧ s.aq ≤ 1 ∧
  -- the low bits of the flag words never carry into the id
  s.rLow < 4 ∧ s.aLow < 3

/-- part B: released buffers are referenced by nothing that can still touch them (in particular MPI does
not read a released send buffer) -/
def GoodRB (s : RState) : Prop :=
  (s.rLife = .freed → s.rq = 0 ∧ s.rHist = false ∧ onR s.pc = false ∧ s.rpend = false) ∧
  (s.aLife = .freed → s.aq = 0 ∧ s.aEarly = false ∧ onA s.pc = false) ∧
  (s.sLife = .freed → s.sref = false ∧ s.sAtGvt = false ∧ s.posFlight = false ∧ s.antiFlight = false)

/-- part C: live buffers are held by somebody (no orphan) -/
def GoodRC (s : RState) : Prop :=
  (s.rLife = .live → 0 < s.rq ∨ s.rHist = true ∨ onR s.pc = true ∨ s.rpend = true) ∧
  (s.aLife = .live → 0 < s.aq ∨ s.aEarly = true ∨ onA s.pc = true) ∧
  (s.sLife = .live → s.sref = true ∨ s.sAtGvt = true) ∧
  -- the search of `p_msgs` during the rollback finds `R`
  (s.pc = .rbA → s.rHist = true)

/-- part D: exactly-once cancellation -/
def GoodRD (s : RState) : Prop :=
  -- once the receiver has handled the anti copy, `R` is never dispatched forward again
  s.fwdAfterObs = false ∧ (s.obs = true → s.pc ≠ .procR) ∧
  -- `R` is undone after the anti was handled at most once, exactly when it was found in the history
  s.unpAfterObs ≤ (if s.hitHist then 1 else 0) ∧
  (s.hitHist = true → s.aLife = .freed → s.unpAfterObs = 1) ∧
  -- an early anti waits only for a positive copy that has not been processed
  (s.aEarly = true → s.rHist = false ∧ s.pc ≠ .procR) ∧
  -- anti copies exist only for cancelled messages
  (s.aLife ≠ .fresh → s.cancelled = true) ∧ (s.antiFlight = true → s.cancelled = true)

instance (s : RState) : Decidable (GoodRA s) := by unfold GoodRA; infer_instance
instance (s : RState) : Decidable (GoodRB s) := by unfold GoodRB; infer_instance
instance (s : RState) : Decidable (GoodRC s) := by unfold GoodRC; infer_instance
instance (s : RState) : Decidable (GoodRD s) := by unfold GoodRD; infer_instance

def GoodR (s : RState) : Prop := GoodRA s ∧ GoodRB s ∧ GoodRC s ∧ GoodRD s
instance (s : RState) : Decidable (GoodR s) := by unfold GoodR; infer_instance

def ProgR (s : RState) : Bool :=
  -- every runtime action decreases `rrank` (so only environment actions can prolong an execution)
  (RAct.all.all (fun a => match rstep s a with
      | some s' => !risSys s a || decide (rrank s' < rrank s) | none => true)) &&
  -- a state without enabled action: everything released, except possibly an anti copy that is left
  -- in `early_antis` at shutdown (see `Props/C06.lean: early_anti_leak_at_shutdown`)
  (!(rsuccs s).isEmpty ||
     (s.sLife == .freed && (s.rLife == .freed || s.rLife == .fresh) &&
      (s.aLife == .freed || s.aLife == .fresh || (s.aLife == .live && s.aEarly && s.down)))) &&
  -- before shutdown a cancelled message with a live receiver-side buffer always has a runtime action enabled
  (!(s.cancelled && !s.down && !s.committed && (s.rLife == .live || s.aLife == .live || s.posFlight || s.antiFlight)) ||
     RAct.all.any (fun a => risSys s a && (rstep s a).isSome))

set_option maxRecDepth 100000 in
theorem RR_facts : (RR.contains RState.init && rclosed RR && RR.all (fun s => decide (GoodR s)) && RR.all ProgR) = true := by
  decide +kernel

theorem RAct.mem_all (a : RAct) : a ∈ RAct.all := by cases a <;> decide

theorem RR_init : RState.init ∈ RR := by
  have := RR_facts
  simp only [Bool.and_eq_true] at this
  exact List.contains_iff_mem.mp this.1.1.1

theorem RR_step {s s' : RState} {a : RAct} (hs : s ∈ RR) (h : rstep s a = some s') : s' ∈ RR := by
  have := RR_facts
  simp only [Bool.and_eq_true] at this
  have hm : s' ∈ rsuccs s := by
    unfold rsuccs
    rw [List.mem_filterMap]
    exact ⟨a, RAct.mem_all a, h⟩
  exact closedBy_spec this.1.1.2 hs hm

theorem RR_run {s s' : RState} (acts : List RAct) (hs : s ∈ RR) (h : rrun s acts = some s') : s' ∈ RR := by
  induction acts generalizing s with
  | nil => simp [rrun] at h; subst h; exact hs
  | cons a as ih =>
    simp only [rrun] at h
    split at h
    · rename_i s1 h1; exact ih (RR_step hs h1) h
    · simp at h

theorem RR_good {s : RState} (hs : s ∈ RR) : GoodR s := by
  have := RR_facts
  simp only [Bool.and_eq_true] at this
  exact of_decide_eq_true ((List.all_eq_true.mp this.1.2) s hs)

theorem RR_prog {s : RState} (hs : s ∈ RR) : ProgR s = true := by
  have := RR_facts
  simp only [Bool.and_eq_true] at this
  exact (List.all_eq_true.mp this.2) s hs

end RootSim.MsgAuto
