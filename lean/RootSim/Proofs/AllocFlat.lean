import RootSim.Proofs.AllocTree
/-! `BT.flatten` (the C array `longest[]`) determines the tree: copying `longest[]` into a checkpoint and
back (what `checkpoint_full_take` / `checkpoint_full_restore` do) is the same as copying the tree (what the
model's `BCkpt.tree` does). -/
namespace RootSim.Alloc
namespace BT

theorem row_length (k : Nat) (t : BT) (d : Nat) : (row k t d).length = 2 ^ d := by
  induction d generalizing k t with
  | zero => simp [row]
  | succ d ih =>
    cases t with
    | free => simp [row]
    | alloc => simp [row]
    | split l r => simp [row, ih, Nat.pow_succ]; omega

theorem flatten_length (T B : Nat) (t : BT) : (flatten T B t).length = 2 ^ (T - B + 1) := by
  unfold flatten
  have : ∀ n, ((List.range n).flatMap (t.row T)).length + 1 = 2 ^ n := by
    intro n
    induction n with
    | zero => simp
    | succ n ih =>
      rw [List.range_succ, List.flatMap_append]
      simp [row_length, Nat.pow_succ] at ih ⊢
      omega
  rw [List.length_append, List.length_singleton]; exact this _

theorem rows_eq_of_flatMap_eq {k : Nat} {t1 t2 : BT} {n : Nat}
    (h : (List.range n).flatMap (t1.row k) = (List.range n).flatMap (t2.row k)) :
    ∀ d, d < n → t1.row k d = t2.row k d := by
  induction n with
  | zero => intro d hd; omega
  | succ n ih =>
    rw [List.range_succ, List.flatMap_append, List.flatMap_append] at h
    simp only [List.flatMap_cons, List.flatMap_nil, List.append_nil] at h
    have hlen : (t1.row k n).length = (t2.row k n).length := by rw [row_length, row_length]
    obtain ⟨h1, h2⟩ := List.append_inj' h hlen
    intro d hd
    by_cases hdn : d = n
    · subst hdn; exact h2
    · exact ih h1 d (by omega)

theorem eq_of_rows_eq {B : Nat} (hB : 0 < B) {k : Nat} {t1 t2 : BT} (h1 : WF B k t1) (h2 : WF B k t2)
    (h : ∀ d, d ≤ k - B → t1.row k d = t2.row k d) : t1 = t2 := by
  induction t1 generalizing k t2 with
  | free =>
    have := h 0 (Nat.zero_le _)
    simp [row] at this
    exact ((longest_eq_iff hB h2).1 this.symm).symm
  | alloc =>
    have h0 := h 0 (Nat.zero_le _)
    simp [row] at h0
    cases t2 with
    | free => have := h2.le; simp at h0; omega
    | alloc => rfl
    | split l r =>
      cases k with
      | zero => simp at h2
      | succ k =>
        have hk := (show WF B k l from (by simp at h2; exact h2.1)).le
        have := h 1 (by omega)
        simp [row] at this h0
        omega
  | split l1 r1 ihl ihr =>
    cases k with
    | zero => simp at h1
    | succ k =>
      have hle := longest_split_le h1
      have h0 := h 0 (Nat.zero_le _)
      simp only [row, List.cons.injEq, and_true] at h0
      have hk := (show WF B k l1 from (by simp at h1; exact h1.1)).le
      cases t2 with
      | free => simp at h0 hle; omega
      | alloc =>
        have := h 1 (by omega)
        simp [row] at this h0
        omega
      | split l2 r2 =>
        simp at h1 h2
        have hrows : ∀ d, d ≤ k - B → l1.row k d = l2.row k d ∧ r1.row k d = r2.row k d := by
          intro d hd
          have := h (d + 1) (by omega)
          simp only [row, Nat.add_sub_cancel] at this
          exact List.append_inj this (by rw [row_length, row_length])
        rw [ihl h1.1 h2.1 (fun d hd => (hrows d hd).1), ihr h1.2.1 h2.2.1 (fun d hd => (hrows d hd).2)]

/-- the array `longest[]` determines the tree -/
theorem flatten_injective {B T : Nat} (hB : 0 < B) {t1 t2 : BT} (h1 : WF B T t1) (h2 : WF B T t2)
    (h : flatten T B t1 = flatten T B t2) : t1 = t2 := by
  unfold flatten at h
  have h' := List.append_cancel_right h
  exact eq_of_rows_eq hB h1 h2 (fun d hd => rows_eq_of_flatMap_eq h' d (by omega))

end BT
end RootSim.Alloc
