import RootSim.Model.Msg
import RootSim.Proofs.MsgOrder
import RootSim.Props.C16
