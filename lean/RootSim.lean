import RootSim.Model.Msg
import RootSim.Model.Sim
import RootSim.Proofs.MsgOrder
import RootSim.Props.C16
import RootSim.Model.GenModel
import RootSim.Model.LP
