"""C10 - the serial runtime implements the reference semantics (+ the private-heap half of C15).

T: Lean theorems over the verbatim heap model (Model/Heap.lean), the serial runtime model (Model/Serial.lean)
   and the reference semantics / sorted-list executor (Model/SeqSpec.lean).
K: the REAL heap macros of src/datatypes/heap.h, instantiated as serial.c and msg_queue.c instantiate them,
   against the model heap: array layout compared after every operation (harness/hc10.c, driver mode `heap`).
   (The end-to-end comparison of serial_simulation() with serialRun/refRun on generated simulation models is
   a separate work package.)
S: multiset accounting and brute-force minimality on the C side (independent of the model).
"""
import json
import os
import vlib
from props import runlib

THEOREMS_C10 = [
    "RootSim.C10.serial_refines_spec", "RootSim.C10.serial_no_error", "RootSim.C10.root_stable",
    "RootSim.C10.specRun_sorted", "RootSim.C10.specRun_exactly_once", "RootSim.C10.ref_refines_spec",
    "RootSim.C10.spec_deterministic", "RootSim.C10.specRuns_deterministic", "RootSim.C10.serial_eq_ref",
    "RootSim.C10.serial_eq_ref_exact", "RootSim.C10.serial_ref_global_order_differs",
    "RootSim.C10.serial_eq_ref_globalStatement_false", "RootSim.C10.pingPong_valid", "RootSim.C10.soloModel_valid",
    "RootSim.C10.valid_of_forall",
]
THEOREMS_C15H = [
    "RootSim.C15.Heap.insert_perm", "RootSim.C15.Heap.extract_perm", "RootSim.C15.Heap.insertN_perm",
    "RootSim.C15.Heap.extract_eq_root", "RootSim.C15.Heap.insert_isHeap", "RootSim.C15.Heap.extract_isHeap",
    "RootSim.C15.Heap.root_minimal", "RootSim.C15.Heap.extract_minimal", "RootSim.C15.Heap.isBefore_strictWeak",
    "RootSim.C15.Heap.insert_timeHeap", "RootSim.C15.Heap.extract_timeHeap", "RootSim.C15.Heap.min_time_le",
    "RootSim.C15.Heap.extract_min_time", "RootSim.C15.Heap.reach_timeHeap", "RootSim.C15.Heap.qElem_timeConsistent",
    "RootSim.C15.Heap.isBefore_timeConsistent",
]


def run(ctx):
    ctx.trusted += [
        "heap.h model: capacity management of array.h (mm_realloc doubling) not modelled; heaps hold < 2^31 "
        "entries (array_count_t arithmetic does not wrap)",
        "serial.c model: handlers are pure functions of (lp, state, event) (V1); the wall-clock test "
        "gvt_period <= timer_value(last_vt) is an arbitrary Boolean oracle; stats/logging/allocator calls "
        "have no influence on the dispatch sequence; message identity = allocation ordinal",
        "end-to-end tie: the real serial_simulation() runs GenModel instances (harness/hrun.c serial mode, virtual clock), "
        "Model/Serial.lean's serialRun runs the Lean twin with the observed timer decisions; every dispatch (lp, t, type, payload) "
        "in the global order and every final LP state digest must agree",
    ]
    ctx.assumptions += [
        "valid model: every reachable handler call satisfies V2 (scheduled events not before the scheduling "
        "event), V3 (types < LP_INIT, timestamps finite >= 0), V4 (destinations < lps)",
        "NDEBUG build (no 'message in the PAST' abort in ScheduleNewEvent_serial)",
    ]
    ok, _ = ctx.lean_build(["RootSim.Props.C10", "RootSim.Props.C15Heap"])
    ctx.token_audit()
    if ok:
        ctx.axiom_audit("RootSim.Props.C10", THEOREMS_C10)
        ctx.axiom_audit("RootSim.Props.C15Heap", THEOREMS_C15H)
        if ctx.tier == "thorough":
            ctx.leanchecker("RootSim.Props.C10")
            ctx.leanchecker("RootSim.Props.C15Heap")
    if not ctx.cc("hc10", [os.path.join(vlib.HARNESS, "hc10.c")]):
        return
    n = 60000 if ctx.tier == "quick" else 1500000
    ops, cf, orf = ctx.path("ops"), ctx.path("c"), ctx.path("oracle")
    rc, out = vlib.run([ctx.path("hc10"), str(ctx.seed), str(n), ops, cf, orf], timeout=3000)
    ctx.oblige("harness-run:hc10", rc == 0, out[-800:])
    if rc != 0:
        # a sanitizer abort / crash of the heap macros is a result in itself
        ctx.violation("harness-crash", {"output": out[-800:]}, True)
        return
    stats = json.loads(out.strip().splitlines()[-1])
    ctx.coverage.update({
        "evaluations": stats["ops"],
        "distinct_nontrivial": stats["tie_time_inserts"] + stats["equal_content_inserts"],
        "rule": "heap operations (insert / insert_n / extract / min / anti-flag flip) on two heaps instantiated "
                "like serial.c and msg_queue.c, in 6 kinds of phases (small dense, grow to thousands and drain, "
                "capacity sawtooth, serial-runtime pattern, insert_n batches, concurrent flag flips); the whole "
                "array order is compared with the model after EVERY operation; non-trivial = inserts whose "
                "timestamp / whole content ties with a queued element",
        "input_distribution": stats})
    div = ctx.kdiff("heap", "heap(insert,insert_n,extract,min;array layout)", ops, cf)
    lines = open(orf).read().splitlines()
    allops = open(ops).read().splitlines()
    ctx.samples += allops[500:503]
    for l in lines[:5]:
        what = l.split()[1]
        ctx.violation("heap-oracle", {"what": what, "input": l}, True)
    # ---- end-to-end: the real serial_simulation() on GenModel instances vs. serialRun (Model/Serial.lean)
    import concurrent.futures
    if not runlib.build(ctx):
        return
    nrun = 24 if ctx.tier == "quick" else 600
    cfgs = runlib.gen_configs(ctx, nrun, big=(ctx.tier != "quick"))
    for i, c in enumerate(cfgs):
        if i % 3 == 0:
            c["tterm"] = [40, 100, 400][i % 9 // 3]
        c["period"] = [1, 1000, 100000][i % 3]
        v2 = c["t0"] & 2                      # V2-only GenModel mode (zero-delay forwards of identical content), 1 in 6 from gen_configs
        if i % 8 == 6:
            v2, c["types"] = 2, max(c["types"], 3)   # ... and a few more: ties between IDENTICAL events at different LPs in the heap
        c["t0"] = (1 if i % 2 else 0) | v2    # events (and predicates first true) at timestamp 0
        if i % 4 == 1:
            # every LP satisfies its predicate at its very first event, which for some LPs is at timestamp 0
            c["thr"], c["spread"], c["t0"], c["lps"] = 1 + (i // 4) % 2, 0, 1 | v2, max(c["lps"], 3)
            c.pop("tterm", None)
    tot = {"runs": 0, "dispatches": 0, "ties": 0}
    divs = []
    with concurrent.futures.ThreadPoolExecutor(max_workers=12) as ex:
        for r in ex.map(lambda ic: runlib.run_serial(ctx, ic[1], "s%d" % ic[0]), enumerate(cfgs)):
            tot["runs"] += 1
            tot["dispatches"] += r["lines"]
            tot["ties"] += r["ties"]
            if r["div"]:
                divs.append(r)
            if r["outcome"] == "crash":
                ctx.violation("runtime-crash", {"cfg": r["cfg"], "output": r["out"][-600:]}, True)
            if r.get("premature"):
                ctx.violation("serial-stopped-before-all-predicates-hold", {"cfg": r["cfg"], "lps_short": r["premature"]}, True)
            if r["unsorted"]:
                ctx.violation("serial-dispatch-not-sorted", {"cfg": r["cfg"], "count": r["unsorted"]}, True)
            if len(ctx.samples) < 8:
                ctx.samples.append({"cfg": r["cfg"], "dispatches": r["sample"]})
    ctx.oblige("correspondence:serial_simulation() vs Model/Serial.lean serialRun (%d runs, %d dispatches, global order incl. ties)"
               % (tot["runs"], tot["dispatches"]), not divs,
               json.dumps({"cfg": divs[0]["cfg"], "div": divs[0]["div"]}) if divs else "")
    ctx.coverage["serial_runs"] = tot
    # uninitialised reads (clang MemorySanitizer build of the whole core): e.g. message fields the allocator leaves as they were
    from props import runlib as _rl
    _rl.msan_matrix(ctx, 12, 200, salt=10)
