"""C03 - committed history is exactly a prefix of the sequential history."""
from props import runlib

THEOREMS = ["RootSim.C01.history_stays_sorted", "RootSim.LP.fossil_inv", "RootSim.C05LP.run_exact", "RootSim.C01.lp_state_is_fold", "RootSim.C01.matchStraggler_spec"]

THEOREMS_D = ['RootSim.PrefixUnique.committed_prefix', 'RootSim.PrefixUnique.committed_prefix_seq', 'RootSim.PrefixUnique.hist_below_prefix', 'RootSim.PrefixUnique.prefix_unique']


def run(ctx):
    ctx.trusted += ["sequentially consistent execution under the token scheduler",
                    "committed stream = entries released by fossil_lp_collect + entries held at process_lp_fini with timestamp below the last GVT "
                    "of the thread, observed through read-only hooks",
                    "composition step (E) covered by sampled runs, see C01"]
    ctx.assumptions += ["valid-model contract V1-V5"]
    runlib.lean_part(ctx, "RootSim.Props.C01Sorted", THEOREMS)
    runlib.lean_part(ctx, "RootSim.Props.PrefixUnique", THEOREMS_D)
    # glue (E): every reachable state of the abstract global Time Warp machine satisfies Hist (Props/C01Glue.lean)
    runlib.lean_part(ctx, "RootSim.Props.C01Glue", ['RootSim.C01Glue.reachable_hist','RootSim.C01Glue.tw_committed_prefix_of_sequential','RootSim.C01Glue.tw_committed_monotone','RootSim.C01Glue.tw_sequential_run_exists'])
    runlib.lean_part(ctx, "RootSim.Props.C01GlueV2", ['RootSim.C01GlueV2.tw_committed_monotone_V2','RootSim.C01GlueV2.tw_committed_prefix_of_sequential_V2'])
    # runs stopped by a termination time (final state speculative) as well as predicate-terminated ones
    agg = runlib.run_matrix(ctx, "committed stream per LP vs Lean sequential per-LP sequence at every fossil collection and at shutdown",
                            36, 400, oracle_keys=("s_below_gvt",), threads=(1, 2, 3, 4), ckpts=(1, 2, 3, 7, 0), tterm=True,
                            fossil_heavy=True, sparse=3)
    if agg:
        ctx.coverage["distinct_nontrivial"] = agg.tot.get("fossil", 0)
        ctx.coverage["rule"] = ("GenModel runs with short GVT periods, half of them stopped by a termination time; non-trivial = fossil collection "
                                "instants at which the released entries were checked to continue the sequential per-LP sequence (c03=ok)")
    # runs ended by RootsimStop() called from a handler at an arbitrary point (LP 0, after k of its events): whatever has been committed
    # by then must be a prefix of the sequential per-LP sequences; final states are speculative (not compared)
    import concurrent.futures
    import random
    if runlib.build(ctx):
        rnd = random.Random(ctx.seed * 311 + 7)
        cfgs = []
        for c in runlib.gen_configs(ctx, 12 if ctx.tier == "quick" else 300, threads=(1, 2, 3, 4), fossil_heavy=True):
            c.update({"seed": rnd.randrange(1, 1 << 30), "mseed": rnd.randrange(1, 1 << 30), "stopat": rnd.choice([3, 20, 60, 150, 400]), "batch": rnd.choice([2, 4, 8]), "period": 0,
                      "tterm": 1 << 40, "thr": rnd.choice([150, 300]), "spread": rnd.choice([0, 10, 30])})
            cfgs.append(c)
        sagg = runlib.Agg()
        with concurrent.futures.ThreadPoolExecutor(max_workers=12) as ex:
            for r in ex.map(lambda ic: runlib.run_one(ctx, "par", ic[1], "st%d" % ic[0]), enumerate(cfgs)):
                sagg.add(r)
        keep = dict(ctx.coverage)
        runlib.standard_verdicts(ctx, sagg, "committed stream of runs ended by RootsimStop()", ("s_below_gvt",))
        stop_cov = {"runs": sagg.runs, "outcomes": sagg.outcomes, "fossil_collections": sagg.tot.get("fossil", 0),
                    "trace_lines": sagg.lines, "known_F1_hangs": sagg.f1}
        ctx.coverage.clear()
        ctx.coverage.update(keep)
        ctx.coverage["rootsim_stop_runs"] = stop_cov
    # refinement of the concrete kernel to the abstract global Time Warp machine of the glue theorems, checked on small runs
    runlib.tw_matrix(ctx, 12, 400, salt=3)
    # committed stream with remote traffic: two-rank runs against the adversarial peer; the exactly-once oracle on the committed
    # stream of remote events (cancelled => never committed; not cancelled and below the final GVT => committed exactly once) is the
    # statement of this property for events that arrive from another rank
    keep = dict(ctx.coverage)
    runlib.peer_matrix(ctx, 16, 200, salt=33)
    pm = ctx.coverage.get("peer_mode")
    ctx.coverage.clear()
    ctx.coverage.update(keep)
    ctx.coverage["committed_remote_events(two-rank peer runs)"] = pm
