"""C06 - cancellation is exactly-once: per-message automata (local and remote) + id uniqueness.

T: the theorems of Props/C06.lean (finite reachable state space checked by kernel evaluation, lifted to
   arbitrary action sequences).
K: trace validation - full parallel runs of the real core (harness/hc06.c, hooks VK_*) are split by message and
   every message's event sequence is fed to `driver msgauto`, which executes the proved automaton; plus a
   regression corpus for the driver itself (corpus/c06_msgauto_traces.txt). Multi-rank (remote) traces are the
   integrator's run.
S: the same run under ASan/UBSan (use-after-free / double free abort the run) + leak detection at `end`."""
import os
import subprocess
import vlib

THEOREMS = ["RootSim.C06.invariant_inductive", "RootSim.C06.reach_good",
            "RootSim.C06.never_two_queue_copies", "RootSim.C06.never_freed_twice",
            "RootSim.C06.no_use_after_free", "RootSim.C06.never_freed_while_reachable",
            "RootSim.C06.never_orphaned", "RootSim.C06.flags_range", "RootSim.C06.flags_five_reachable",
            "RootSim.C06.anti_bit_iff_cancelled", "RootSim.C06.processed_bit_iff_in_history",
            "RootSim.C06.no_forward_after_observed", "RootSim.C06.at_most_one_forward_after_cancel",
            "RootSim.C06.rolled_back_exactly_once", "RootSim.C06.uncancelled_released_only_by_fossil_or_shutdown",
            "RootSim.C06.cancelled_paths_terminate", "RootSim.C06.terminal_is_freed",
            "RootSim.C06.cancelled_runtime_action_enabled",
            "RootSim.C06.remote_invariant_inductive", "RootSim.C06.remote_memory_safe",
            "RootSim.C06.remote_never_freed_while_reachable", "RootSim.C06.remote_never_orphaned",
            "RootSim.C06.remote_exactly_once", "RootSim.C06.remote_runtime_actions_terminate",
            "RootSim.C06.remote_terminal", "RootSim.C06.early_anti_leak_at_shutdown",
            "RootSim.C06.id_unique", "RootSim.C06.id_unique_same_thread",
            "RootSim.C06.id_collision_at_max_threads"]


# LP level: ALL dispatch branches of process_msg (Model/LPFull.lean = the function Driver/Run.lean executes on every `ext` line)
THEOREMS_LP = ["RootSim.C06LP.step_preserves_wf", "RootSim.C06LP.step_state_is_fold", "RootSim.C06LP.step_defined",
               "RootSim.C06LP.anti_removes_exactly_target", "RootSim.C06LP.remote_anti_removes_exactly_target",
               "RootSim.C06LP.remote_cancel_any_order", "RootSim.C06LP.remote_pair_status",
               "RootSim.C06LP.early_list_exact", "RootSim.C06LP.early_list_exact_of_inputs",
               "RootSim.C06LP.check_early_removes_exactly_one", "RootSim.C06LP.check_early_no_match"]


VK = {1: "EXTRACT", 2: "FORWARD", 4: "ANTI_LOCAL", 6: "UNPROCESS", 7: "FOSSIL_FREE", 9: "FINI_ENTRY", 10: "MSG_ALLOC",
      11: "MSG_FREE", 17: "SEND_LOCAL", 20: "ANTI_DISCARD", 24: "DEQUEUE"}

from props import runlib


def vk_numbers():
    """numeric values of enum verif_kind, read from the working tree (the enum is add-only but may be renumbered)"""
    import re
    txt = open(os.path.join(vlib.REPO, "src", "core", "verif.h")).read()
    m = re.search(r"enum verif_kind \{(.*?)\};", txt, re.S)
    names = re.findall(r"^\s*(VK_[A-Z_]+)\s*(=\s*(\d+))?", m.group(1), re.M)
    val, out = 0, {}
    for n, _, v in names:
        val = int(v) if v else val
        out[val] = n[3:]
        val += 1
    return out


def split_trace(path):
    """full-run log -> per-message action sequences in the vocabulary of `driver msgauto` (local messages).
    A buffer address is reused after `free`: a message = (address, n-th allocation)."""
    import collections
    vk = vk_numbers()
    life = collections.defaultdict(int)
    traces = collections.OrderedDict()
    complete = False

    def add(ptr, line):
        traces.setdefault((ptr, life[ptr]), []).append(line)
    for l in open(path):
        if l.startswith("#"):
            complete = "complete" in l
            continue
        _, k, a, b, _ = l.split()
        k, a, b = vk.get(int(k), "?"), int(a, 16), int(b, 16)
        if k == "MSG_ALLOC":
            life[a] += 1
            add(a, "alloc")
        elif k == "SEND_LOCAL":
            add(a, "send_local")
        elif k == "DEQUEUE":
            add(a, "dequeue")
        elif k == "EXTRACT":
            add(a, "extract %d" % b)
        elif k == "FORWARD":
            add(a, "forward")
        elif k == "ANTI_LOCAL":
            add(a, "anti_local %d" % b)
        elif k == "UNPROCESS":
            add(a, "unprocess %d" % b)
        elif k == "ANTI_DISCARD":
            add(a, "anti_discard %d" % b)
        elif k == "MSG_FREE":
            add(a, "free")
        elif k in ("FOSSIL_FREE", "FINI_ENTRY") and not (b & 3):
            # entries tagged "sent" are the SENDER's references: a stale one may outlive the buffer, so it
            # cannot be attributed to an allocation by its address; `senderDrop` is unobservable anyway
            add(b, "fossil_free" if k == "FOSSIL_FREE" else "fini_entry")
    for key, tr in traces.items():
        if "send_local" not in tr and tr and tr[0] == "alloc":
            tr.insert(1, "lp_init")
        if complete:
            tr.append("shutdown")
        tr.append("end")
    return traces, complete


def rollback_oracle(path):
    """S oracle on the full-run log, independent of the automaton: rebuild every LP's history `p_msgs` from the
    events (SEND_LOCAL pushes a sent entry, FORWARD a received one, FOSSIL_DONE drops a prefix) and check at every
    ROLLBACK(lp, past_i) that EVERY entry from past_i on was undone first - each sent entry cancelled (ANTI_LOCAL),
    each received entry un-processed (UNPROCESS) - i.e. every event scheduled by an undone execution is cancelled,
    and that no sent entry below past_i was cancelled (events of executions that stay valid are never removed)."""
    vk = {v: k for k, v in vk_numbers().items()}
    need = ("SEND_LOCAL", "FORWARD", "ROLLBACK", "FOSSIL_DONE", "ANTI_LOCAL", "UNPROCESS")
    K = {vk[n]: n for n in need if n in vk}
    hist = {}           # lp -> list of [kind, msg, undone]
    viol, n_rb, n_undone = [], 0, 0
    where = {}          # msg -> (lp, entry) of its latest sent / received entry

    def h(lp):
        # index 0 is the LP_INIT pseudo message pushed by process_lp_init (no FORWARD event)
        return hist.setdefault(lp, [["R", None, False]])
    for ln, l in enumerate(open(path)):
        if l.startswith("#"):
            continue
        _, k, a, b, c = l.split()
        k = K.get(int(k))
        if not k:
            continue
        a, b, c = int(a, 16), int(b, 16), int(c, 16)
        if k == "SEND_LOCAL":
            e = ["S", a, False]
            h(b).append(e)
            where[("S", a)] = e
        elif k == "FORWARD":
            e = ["R", a, False]
            lst = h(b)
            lst.append(e)
            where[("R", a)] = e
            if len(lst) - 1 != c and len(viol) < 5:
                viol.append("HISTORY_INDEX line %d lp %d: FORWARD index %d but reconstructed history has %d entries"
                            % (ln, b, c, len(lst) - 1))
        elif k == "FOSSIL_DONE":
            del h(a)[:b]
        elif k == "ANTI_LOCAL":
            e = where.get(("S", a))
            if e:
                e[2] = True
        elif k == "UNPROCESS":
            e = where.get(("R", a))
            if e:
                e[2] = True
        elif k == "ROLLBACK":
            lst = h(a)
            n_rb += 1
            for i, e in enumerate(lst):
                if i >= b and not e[2] and len(viol) < 5:
                    viol.append("ROLLBACK_INCOMPLETE line %d lp %d past_i %d: entry %d (%s of msg %x) was not undone"
                                % (ln, a, b, i, "sent" if e[0] == "S" else "received", e[1] or 0))
                if i < b and e[2] and len(viol) < 5:
                    viol.append("ROLLBACK_TOO_FAR line %d lp %d past_i %d: entry %d (%s of msg %x) below past_i was undone"
                                % (ln, a, b, i, "sent" if e[0] == "S" else "received", e[1] or 0))
            n_undone += max(0, len(lst) - b)
            del lst[b:]
    return viol, n_rb, n_undone


def trace_run(ctx, name, threads, lps, endt, seed):
    """one full run of the real core; every message's event sequence must be a path of the automaton"""
    tr = ctx.path("trace_" + name)
    # The run is free-running; the unchanged tree is known to hang at shutdown now and then (finding F1, C08's
    # subject). A watchdog turns a hang into a partial trace (still a valid input); up to three attempts are made
    # to obtain a complete run, because only a complete run allows the leak check at `end`.
    hangs = 0
    for attempt in range(3):
        if os.path.exists(tr):
            os.remove(tr)
        rc, out = vlib.run([ctx.path("hc06"), str(threads), str(lps), str(endt), str(seed + 1000 * attempt), tr, "5"],
                           timeout=120)
        if rc not in (0, 3) or not os.path.exists(tr):
            ctx.oblige("trace-run:" + name, False, out[-800:])
            ctx.violation("harness-crash", {"run": name, "seed": seed + 1000 * attempt, "output": out[-1500:]}, True)
            return None
        if rc == 0:
            break
        hangs += 1
    traces, complete = split_trace(tr)
    lines, idx = [], []
    for key, t in traces.items():
        for x in ["msg local"] + t:
            lines.append(x)
            idx.append(key)
    ops, outf = ctx.path("ops_" + name), ctx.path("out_" + name)
    open(ops, "w").write("\n".join(lines) + "\n")
    okd = ctx.driver("msgauto", ops, outf)
    res = open(outf).read().splitlines()
    bad = {}
    for i, o in enumerate(res):
        if not o.startswith("ok"):
            bad.setdefault(idx[i], (lines[i], o))
    ends = {}
    for i, o in enumerate(res):
        if lines[i] == "end" and o.startswith("ok"):
            k = " ".join(x for x in o.split() if x.startswith(("life=", "cancelled=", "freedBy=")))
            ends[k] = ends.get(k, 0) + 1
    ctx.oblige("trace-inclusion:" + name, okd and len(res) == len(lines) and not bad,
               "%d of %d messages rejected" % (len(bad), len(traces)))
    for key, (line, o) in list(bad.items())[:3]:
        ctx.violation("msgauto-trace", {"what": o.split(" ", 1)[1][:60] if " " in o else o, "run": name,
                                        "rejected_line": line, "verdict": o, "message_trace": traces[key]}, True)
    rviol, n_rb, n_undone = rollback_oracle(tr)
    ctx.oblige("rollback-oracle:" + name, not rviol, "; ".join(rviol[:2]))
    for v in rviol[:3]:
        ctx.violation("rollback-oracle", {"what": v.split()[0], "run": name, "input": v}, True)
    return {"messages": len(traces), "events": len(lines), "complete_run": complete, "hung_attempts": hangs,
            "rollbacks": n_rb, "history_entries_undone": n_undone,
            "rejected": len(bad),
            "cancelled": sum(1 for t in traces.values() if any(x.startswith("anti_local") for x in t)),
            "rolled_back": sum(1 for t in traces.values() if any(x.startswith("unprocess") for x in t)),
            "final_states": ends}


def run(ctx):
    ctx.trusted += [
        "C06: sequentially consistent interleaving of the atomic actions on one message (memory_order_relaxed "
        "not modelled); the hand-written automata of Model/MsgAuto*.lean are tied to the code by the integrator's "
        "trace-inclusion check over full instrumented runs (driver mode msgauto), not by this check",
        "C06 environment hypotheses: `commit` (GVT passed dest_t => nothing queued/in hand/in flight, no rollback "
        "across it: C04/C13), `scommit` (GVT passed the send time => no cancel, MPI transfer complete), "
        "`shutdown` (all threads quiescent, MPI drained, lp_fini before msg_queue_fini on a thread: C08)"]
    ctx.assumptions += ["remote ids: rid + 1 < 4096 (fewer than MAX_THREADS threads per rank), nid < 65536, and the 31-bit "
                        "per-(thread, phase, destination rank) counter does not wrap between a message and its anti-message"]
    ok, _ = ctx.lean_build(["RootSim.Props.C06"])
    ctx.token_audit()
    if ok:
        ctx.axiom_audit("RootSim.Props.C06", THEOREMS)
        if ctx.tier == "thorough":
            ctx.leanchecker("RootSim.Props.C06")
    runlib.lean_part(ctx, "RootSim.Props.C06LP", THEOREMS_LP)
    # driver regression corpus
    rows = [l.rstrip("\n") for l in open(os.path.join(vlib.VERIF, "corpus", "c06_msgauto_traces.txt"))
            if l.strip() and not l.startswith("#")]
    exp = [r.split(" ", 1)[0] for r in rows]
    inp = [r.split(" ", 1)[1] for r in rows]
    ops, outf = ctx.path("ops"), ctx.path("out")
    open(ops, "w").write("\n".join(inp) + "\n")
    okd = ctx.driver("msgauto", ops, outf)
    got = [l.split(" ", 1)[0] if l else "" for l in open(outf).read().splitlines()]
    bad = [(i, inp[i], exp[i], got[i] if i < len(got) else "<eof>") for i in range(len(exp))
           if i >= len(got) or got[i] != exp[i]]
    ctx.oblige("msgauto-driver-corpus", okd and not bad, str(bad[:3]))
    ctx.samples += inp[:3]
    # trace validation: full runs of the real core, every LOCAL message's event sequence must be a path of the automaton
    if not ctx.cc("hc06", [os.path.join(vlib.HARNESS, "hc06.c")] + ctx.core_sources(mpi=False)):
        return
    runs = [("2thr", 2, 16, 2.0), ("3thr", 3, 12, 1.5), ("4thr", 4, 8, 1.0)] if ctx.tier == "quick" else \
           [("2thr", 2, 16, 4.0), ("3thr", 3, 12, 3.0), ("4thr", 4, 8, 2.0), ("4thr-b", 4, 32, 3.0), ("2thr-few-lps", 2, 4, 3.0),
            ("3thr-b", 3, 24, 3.0)]
    tot = {"messages": 0, "events": 0, "cancelled": 0, "rolled_back": 0, "rejected": 0, "runs": {}}
    if ctx.tier != "quick":
        runs = [("%s-s%d" % (n, k), t, l, e, ctx.seed + 7 * k) for (n, t, l, e) in runs for k in range(4)]
    else:
        runs = [(n, t, l, e, ctx.seed) for (n, t, l, e) in runs]
    for name, thr, lps, endt, sd in runs:
        r = trace_run(ctx, name, thr, lps, endt, sd)
        if r:
            tot["runs"][name] = r
            for k in ("messages", "events", "cancelled", "rolled_back", "rejected"):
                tot[k] += r[k]
    ctx.coverage.update({"evaluations": tot["messages"], "distinct_nontrivial": tot["cancelled"],
                         "rule": "messages of full parallel runs of the real core (single rank, local messages) whose complete "
                                 "logged event sequence was checked to be a path of the proved automaton; non-trivial = "
                                 "messages that were cancelled by their sender; plus %d lines of the driver regression corpus; "
                                 "remote messages: automaton proved, trace validation is the integrator's multi-rank run" % len(rows),
                         "input_distribution": tot,
                         "reachable_states": {"local": 70, "remote": 168}})
    free_running = {"messages": tot["messages"], "cancelled": tot["cancelled"], "rolled_back": tot["rolled_back"]}
    # ---- deterministic part: full runs under the token scheduler (yield points around every fetch_add on a flag word), re-executed on
    # the model, which predicts the value seen by EVERY fetch_add (extract / anti / unprocess), every re-queue, every release and the
    # leak count; the counts below are functions of the seed only (unlike the free-running traces above, which depend on OS timing)
    agg = runlib.run_matrix(ctx, "flag word of every message at every fetch_add, queue membership, frees (scheduled full runs)",
                            24, 300, oracle_keys=("s_double_free",), threads=(2, 3, 4), ckpts=(1, 2, 3, 7))
    if agg:
        ctx.coverage["evaluations"] = agg.tot.get("msgs", 0)
        ctx.coverage["distinct_nontrivial"] = agg.tot.get("antis", 0)
        ctx.coverage["rule"] = ("messages of scheduled full runs (deterministic in the seed) whose flag word was predicted at every fetch_add; "
                                "non-trivial = anti-message operations (local cancellations); in addition the event sequence of every message "
                                "of free-running 2-4 thread runs is checked to be a path of the proved automaton (counts under free_running_traces "
                                "depend on OS timing)")
        ctx.coverage["free_running_traces"] = free_running
    # ---- remote messages: adversarial-peer runs (real mpi.c on a fake MPI library, rank 1 played by a hostile but legal peer):
    # every remote event / anti-message / early anti-message / free-at-GVT decision re-executed; exactly-once oracle on the
    # committed stream of remote events (independent of the Lean model)
    pagg = runlib.peer_matrix(ctx, 90, 500, salt=6)
    if pagg:
        ctx.coverage["remote_messages"] = ctx.coverage.pop("peer_mode")
