"""C08 - every run returns (liveness of termination and shutdown), single node / no_mpi build."""
import json
import os
import vlib

THEOREMS = ["RootSim.Fair.fair_terminates", "RootSim.C08.f1_deadlock_witness", "RootSim.C08.f1_stuck_forever",
            "RootSim.C08.f1_counterexample", "RootSim.C08.f1_schedule_on_fixed", "RootSim.C08.f10_livelock_witness",
            "RootSim.C08.f10_counterexample", "RootSim.C08.f10_prefix_on_fixed", "RootSim.C08.roundRobin_fair",
            "RootSim.Fair.fair_terminates_run", "RootSim.C08.progress_measure", "RootSim.C08.f1_not_deadlock_free",
            "RootSim.C08.shutdown_live_partial", "RootSim.C08.shutdown_live_partial_quiet", "RootSim.C08.lp_fini_once"]

MODES = {"shutdown00": "pinned", "shutdown10": "F1-repair only", "shutdown01": "F10-repair only",
         "shutdown11": "F1+F10 repairs"}


def scenarios(ctx):
    n = 14 if ctx.tier == "quick" else 400
    out = []
    for j in range(n):
        sc = "stop" if j % 5 == 4 else "pred"
        out.append((ctx.seed * 100000 + j, sc, 2 + j % 3, 6, j % 4))
    out.append((ctx.seed * 100000 + 990, "pred", 1, 4, 1))
    out.append((ctx.seed * 100000 + 991, "f10", 1, 100, 0))
    out.append((ctx.seed * 100000 + 992, "f10", 2, 100, 2))
    return out


def build_hc08(ctx):
    srcs = ctx.core_sources(exclude=("gvt/gvt.c",))  # gvt.c is #included by the harness (static counters)
    return ctx.cc("hc08", [os.path.join(vlib.HARNESS, "hc08.c")] + srcs)


def run_scenarios(ctx, scs):
    """runs every scenario in its own process; returns (ops_file, c_file, [oracle lines with scenario], [stats])"""
    ops_all, c_all = ctx.path("ops8"), ctx.path("c8")
    oracle, stats = [], []
    with open(ops_all, "w") as fo, open(c_all, "w") as fc:
        for sc_ in scs:
            (seed, sc, nt, lps, pm), kend = sc_[:5], (sc_[5] if len(sc_) > 5 else 40)
            o, c, r = ctx.path("o1"), ctx.path("c1"), ctx.path("r1")
            argv = [ctx.path("hc08"), str(seed), sc, str(nt), str(lps), str(pm), o, c, r, str(kend)]
            rc, out = vlib.run(argv, timeout=900)
            if rc != 0 or not out.strip():
                ctx.oblige("harness-run:hc08 %s" % " ".join(argv[1:6]), False, out[-600:])
                ctx.violation("harness-crash", {"argv": argv[1:6], "output": out[-600:]}, True)
                continue
            st = json.loads(out.strip().splitlines()[-1])
            st["argv"] = " ".join(argv[1:6])
            stats.append(st)
            fo.write(open(o).read())
            fc.write(open(c).read())
            for l in open(r).read().splitlines():
                oracle.append((l, st))
    return ops_all, c_all, oracle, stats


def match_variant(ctx, ops, cf):
    for mode in MODES:
        lf = cf + "." + mode
        if ctx.driver(mode, ops, lf) and open(lf).read() == open(cf).read():
            return mode
    return None


def run(ctx):
    ctx.trusted += [
        "C11 memory_order annotations not modelled (sequentially consistent steps); one model step = one call of "
        "gvt_phase_run / one loop-head test / one barrier entry or exit (guards inside a call are stable)",
        "sync_thread_barrier abstracted as a blocking N-barrier (its correctness is C17); single node, no_mpi build "
        "(control messages synchronous, collectives identities); MPI progress and multi-node shutdown not covered",
        "the deterministic scheduler of harness/hc08.c (token passing at the ROOTSIM_VERIF yield points, virtual clock)",
        "bounded model checking of the model (driver mode shutdownmc) is executed by COMPILED Lean code: search "
        "evidence, not a kernel-checked proof"]
    ctx.assumptions += ["weak fairness: every thread is scheduled again and again (after the trigger the harness schedules "
                        "round robin)", "RootsimStop is not called again after termination has been decided (model checking only)"]
    ok, _ = ctx.lean_build(["RootSim.Props.C08"])
    ctx.token_audit()
    if ok:
        ctx.axiom_audit("RootSim.Props.C08", THEOREMS)
    # detection half: a thread that has not voted has a finite max_t, so it votes at the first GVT above it once its LPs are done
    okt, _ = ctx.lean_build(["RootSim.Props.C08Term"])
    if okt:
        ctx.axiom_audit("RootSim.Props.C08Term", ["RootSim.C08Term.detection_live", "RootSim.C08Term.maxT_max_iff_voted",
                                                  "RootSim.C08Term.good_run", "RootSim.C08Term.runG_fst"])
        if ctx.tier == "thorough":
            ctx.leanchecker("RootSim.Props.C08")
    if not build_hc08(ctx):
        return
    scs = scenarios(ctx)
    ops, cf, oracle, stats = run_scenarios(ctx, scs)
    mode = match_variant(ctx, ops, cf)
    variant = MODES.get(mode, "none of the four model variants")
    ctx.kdiff(mode or "shutdown00", "worker-loop/gvt_phase_run/gvt_msg_drain control skeleton [%s]" % variant, ops, cf)
    returned = sum(1 for s in stats if s["result"] == "RETURNED")
    ctx.coverage.update({
        "code_variant_matched": variant,
        "schedules_explored": len(stats), "returned": returned, "hung": len(stats) - returned,
        "evaluations": sum(s["model_actions"] for s in stats),
        "distinct_nontrivial": sum(s["post_trigger_steps"] for s in stats),
        "rule": "model actions replayed in lock-step with the real code (control point, thread_phase, c_a, c_b, gvt_nodes, "
                "nodes_to_end, GVT delivered); non-trivial = scheduling steps after termination was decided",
        "input_distribution": [{k: s[k] for k in ("argv", "result", "signature", "switches", "model_actions", "votes")}
                               for s in stats]})
    # bounded model checking of the model variant the tree corresponds to (compiled definitions)
    if mode:
        cfb, zfb = mode[-2], mode[-1]
        q = ctx.path("mcq")
        cases = [(1, 0), (1, 1), (2, 0), (2, 1), (3, 0)] + ([(3, 1), (4, 0)] if ctx.tier == "thorough" else [])
        open(q, "w").write("".join("mc %s %s %d %d\n" % (cfb, zfb, n, zq) for n, zq in cases))
        ctx.driver("shutdownmc", q, q + ".out", timeout=3000)
        res = open(q + ".out").read().splitlines()
        mc = {}
        for (n, zq), l in zip(cases, res):
            f = dict(x.split("=") for x in l.split())
            mc["n=%d zq=%d" % (n, zq)] = f
            live = f["deadlocks"] == "0" and f["livelock"] == "0" and f["finiOnce"] == "1" and f["exhaustive"] == "1"
            if cfb == "1" and zfb == "1":
                ctx.oblige("model-check(%s,n=%d,zq=%d): no deadlock, no livelock, LP_FINI once" % (variant, n, zq), live, l)
        ctx.coverage["bounded_model_checking"] = mc
    ctx.samples += open(ops).read().splitlines()[1:6]
    seen = set()
    for l, st in oracle:
        f = dict(x.split("=", 1) for x in l.split()[1:])
        if not l.startswith("C08"):
            continue
        if f["kind"] == "shutdown-hang":
            phases = sorted(set(t.split("phase=")[1] for t in f["threads"].split(";") if "stage=1," in t))
            det = {"signature": f["signature"], "flush_phases": "".join(phases), "threads": f["threads"],
                   "zero_ts_queued": "1" if st["scenario"] == "f10" else "0", "replay_argv": st["argv"]}
        else:
            det = dict(f, replay_argv=st["argv"])
        key = (f["kind"], det.get("signature"), det.get("flush_phases"), det.get("zero_ts_queued"))
        if key in seen:
            continue
        seen.add(key)
        ctx.violation(f["kind"], det, True)
    # ---- two ranks: the real mpi.c / gvt_msg_drain / mpi_remote_msg_drain with a hostile but legal peer (fake MPI library) that keeps
    # cancelling events while this rank shuts down (anti-messages of another colour than their events in flight during the drain
    # rounds, control messages arbitrarily late). Oracle: the run returns within the step budget; a hang outside the flush loop /
    # barrier of gvt_msg_drain (stages 1-2 = the known F1 family) is a violation with the configuration as replay.
    from props import runlib
    pagg = runlib.peer_matrix(ctx, 40, 400, salt=8)
    if pagg:
        ctx.coverage["two_rank_shutdown(adversarial peer)"] = ctx.coverage.pop("peer_mode")
    # ---- full single-rank runs of GenModel instances (incl. predicates already true at LP_INIT, tiny thresholds, termination
    # times): every run must return within the step budget; a hang that does not carry the F1 signature is a violation
    keep = {k: ctx.coverage.get(k) for k in ("evaluations", "distinct_nontrivial", "rule", "traces_validated_against_impl",
                                              "trace_lines_compared", "totals", "outcomes")}
    sagg = runlib.run_matrix(ctx, "full runs return (GenModel, scheduled)", 30, 300, oracle_keys=(), threads=(1, 2, 3, 4), tterm=False)
    for k, v in keep.items():  # the headline numbers of this check stay those of the lock-step replay
        if v is None:
            ctx.coverage.pop(k, None)
        else:
            ctx.coverage[k] = v
    if sagg:
        ctx.coverage["full_runs"] = {"runs": sagg.runs, "outcomes": sagg.outcomes, "known_F1_hangs": sagg.f1}
    # ---- models whose event population never dies out (frozen LPs keep ticking; no Lean twin): such a run can only end through
    # the termination protocol, so a thread that can no longer vote shows as a hang in the worker loop (stage 0)
    import random
    import concurrent.futures
    rnd = random.Random(ctx.seed * 31 + 5)
    lcfgs = []
    for i in range(40 if ctx.tier == "quick" else 400):
        c = runlib.gen_configs(ctx, 1)[0]
        c.update({"seed": rnd.randrange(1, 1 << 30), "mseed": rnd.randrange(1, 1 << 30), "live": 1, "threads": rnd.choice([1, 2, 3, 4]),
                  "lps": rnd.choice([2, 3, 4, 6, 8]), "thr": rnd.choice([0, 5, 20, 60]),
                  "spread": rnd.choice([0, 3, 10, 2000, 2003, 3010]), "period": rnd.choice([0, 10, 1000]),
                  "batch": rnd.choice([0, 2, 8]), "budget": 1200000, "mem": 0})
        c.pop("tterm", None)
        lcfgs.append(c)
    lagg = runlib.Agg()
    with concurrent.futures.ThreadPoolExecutor(max_workers=12) as ex:
        for r in ex.map(lambda ic: runlib.run_one(ctx, "par", ic[1], "lv%d" % ic[0], model=False), enumerate(lcfgs)):
            lagg.add(r)
    for r in lagg.hang_other[:3]:
        ctx.violation("hang", {"cfg": r["cfg"], "points": r["stats"].get("points"), "note": "population never dies out: only the termination protocol can end this run"}, True)
    for r in lagg.crashes[:2]:
        ctx.violation("runtime-crash", {"cfg": r["cfg"], "output": r["out"][-500:]}, True)
    ctx.coverage["never_quiescent_models"] = {"runs": lagg.runs, "outcomes": lagg.outcomes, "known_F1_hangs": lagg.f1}
