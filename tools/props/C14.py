"""C14 - LP placement and routing: unique (rank, thread) owner, routing = ownership, contiguous cover,
no idle thread; fixed-width faithfulness; F9 (fewer LPs than ranks)."""
import json
import os
import shutil
import vlib

P = "RootSim.C14."
THEOREMS = [P + t for t in [
    "partStart_spec", "partStart_boundary", "partStart_last",
    "node_first_zero", "node_first_last", "node_first_mono", "node_contiguous", "node_route_iff",
    "node_route_lt", "node_owner_unique", "node_nonempty",
    "clamp_pos", "clamp_le_m", "clamp_le_t", "clamp_eq_of_le",
    "thread_first_zero", "thread_first_last", "thread_first_mono", "thread_route_iff", "thread_route_lt",
    "thread_owner_unique", "no_idle_thread", "no_idle_thread_of_enough",
    "all_ranks_work", "placement",
    "f9_rank_without_lps", "f9_div_by_zero", "f9_counterexample",
    "u64_faithful_nid", "u64_faithful_node", "u64_faithful_global_init", "u64_faithful_rid",
    "u64_faithful_thread", "u64_wrap_route", "u64_wrap_owner", "u64_wrap_nonterm"]]


def f9_replay(ctx):
    """1 LP on 2 ranks through the REAL runtime (mpi.c + whole core from the working tree).
    returns 'hang' | 'rejected' | 'completed' | 'unavailable'"""
    if not (shutil.which("mpicc") and shutil.which("mpiexec")):
        return "unavailable", ""
    srcs = ctx.core_sources(mpi=True)
    if not ctx.cc("hc14_f9", [os.path.join(vlib.HARNESS, "hc14_f9_model.c"),
                              os.path.join(vlib.HARNESS, "vhooks_default.c")] + srcs,
                  mpi=True, sanitize=False):
        return "unavailable", ""
    base = ["mpiexec", "--allow-run-as-root", "--oversubscribe", "-n"]
    # control: as many LPs as ranks must complete (otherwise MPI itself is not usable here)
    rc, out = vlib.run(["timeout", "-s", "KILL", "60"] + base + ["2", ctx.path("hc14_f9"), "2"], timeout=90)
    if rc != 0 or out.count("run returned 0") != 2:
        ctx.oblige("f9-replay-control(2 LPs, 2 ranks completes)", False, out[-300:])
        return "unavailable", out
    rc, out = vlib.run(["timeout", "-s", "KILL", "12"] + base + ["2", ctx.path("hc14_f9"), "1"], timeout=40)
    if rc in (124, 137) or "run returned" not in out:
        return "hang", out
    if out.count("run returned 0") == 2:
        return "completed", out
    return "rejected", out


def run(ctx):
    ctx.trusted += ["C14: the typed (fixed-width) model follows the clang AST of the macro expansions; gcc's "
                    "implementation-defined uint64->int conversion (modulo 2^32); u64_faithful_* tie it to the Nat "
                    "model inside lps*n_nodes < 2^64, n_lps_node*n_threads < 2^64"]
    ctx.assumptions += ["1 <= lps, 1 <= n_nodes < 2^31, 1 <= n_threads < 2^32 (RootsimInit rejects lps = 0, MPI gives n_nodes >= 1)",
                        "run-level statement (placement): n_nodes <= lps (F9 otherwise)",
                        "fixed-width = Nat only for lps * n_nodes < 2^64 and n_lps_node * n_threads < 2^64 "
                        "(outside: u64_wrap_route / u64_wrap_owner / u64_wrap_nonterm)"]
    ok, _ = ctx.lean_build(["RootSim.Props.C14"])
    ctx.token_audit()
    if ok:
        ctx.axiom_audit("RootSim.Props.C14", THEOREMS)
        if ctx.tier == "thorough":
            ctx.leanchecker("RootSim.Props.C14")
    if not ctx.cc("hc14", [os.path.join(vlib.HARNESS, "hc14.c")]):
        return
    ops, cf, orf = ctx.path("ops"), ctx.path("c"), ctx.path("oracle")
    rc, out = vlib.run([ctx.path("hc14"), str(ctx.seed), "1" if ctx.tier == "thorough" else "0", ops, cf, orf],
                       timeout=3000)
    oracle = open(orf).read().splitlines() if os.path.exists(orf) else []
    hangs = [l for l in oracle if l.startswith("hang ")]
    ctx.oblige("harness-run:hc14", rc == 0, out[-800:] + " ".join(hangs))
    if rc != 0:
        # the implementation crashed (sanitizer) or a partition_start loop did not return (watchdog): a result in
        # itself; the property failures seen before that point are reported too
        if hangs:
            ctx.violation("partition-start-does-not-return", {"input": hangs[0]}, True)
        else:
            ctx.violation("harness-crash", {"output": out[-800:]}, True)
        for l in [l for l in oracle if not l.startswith(("rank-without-lps ", "hang "))][:5]:
            ctx.violation(l.split()[0], {"law": l.split()[0], "input": l}, True)
        return
    stats = json.loads(out.strip().splitlines()[-1])
    ctx.coverage.update({"evaluations": stats["lines"], "distinct_nontrivial": stats["uneven_triples"],
                         "rule": "protocol lines (lp_global_init per rank, lp_init per thread, lid_to_nid/lid_to_rid per LP; "
                                 "Nat and fixed-width model each) over every (lps, ranks, threads) in 1..40 x 1..8 x 1..8 "
                                 "(every rank, thread, LP) + seeded random triples up to 2^20 LPs x 64 ranks x 64 threads + "
                                 "type-boundary triples (2^31, 2^32, 2^63, 2^64/n) + wrap-around cases; non-trivial = triples "
                                 "where lps is not divisible by ranks or the per-rank share by threads",
                         "input_distribution": stats})
    div = ctx.kdiff("place", "lp_global_init/lp_init/lid_to_nid/lid_to_rid (Nat + U64 models)", ops, cf)
    allops = open(ops).read().splitlines()
    ctx.samples += allops[1000:1003] + allops[-3:]

    # S oracle: the property evaluated on the implementation
    f9_lines = [l for l in oracle if l.startswith("rank-without-lps ")]
    others = [l for l in oracle if not l.startswith("rank-without-lps ")]
    for l in others[:5]:
        toks = l.split()
        det = {"law": toks[0], "input": l}
        ctx.violation(toks[0], det, True)
    if div and not others:
        pass  # correspondence broke, oracle silent: reported as broken obligation by kdiff

    # F9: ranks without LPs exist in the searched space (lps < ranks). Whether that is reachable is decided on
    # the real runtime: 1 LP on 2 ranks.
    if f9_lines:
        outcome, rout = f9_replay(ctx)
        ctx.coverage["f9_replay"] = {"outcome": outcome, "cmd": "mpiexec -n 2 hc14_f9 1 (timeout 12 s)",
                                     "triples_with_rank_without_lps": stats["triples_with_rank_without_lps"]}
        if outcome == "hang":
            ctx.violation("rank-without-lps", {"outcome": "hang", "input": f9_lines[0],
                                               "replay": "1 LP, mpiexec -n 2: no return within 12 s"}, True)
        elif outcome == "completed":
            # a rank with n_threads = 0 came back: the run-level theorem's hypothesis n <= lps is then stronger than needed
            ctx.coverage["f9_replay"]["note"] = "runtime completes with a rank without LPs"
        elif outcome == "rejected":
            ctx.coverage["f9_replay"]["note"] = "runtime rejects lps < ranks at start: inputs outside the reachable domain"
        else:
            # cannot decide here: keep the arithmetic finding visible as the known finding
            ctx.violation("rank-without-lps", {"outcome": "hang", "input": f9_lines[0],
                                               "replay": "MPI not available: not replayed"}, True)
    # routing AT THE POINT OF USE (ScheduleNewEvent in process.c): two-rank runs against the adversarial peer - every event this rank
    # schedules for an LP of the other rank (in particular its FIRST LP) must leave through the remote path, everything else must stay
    # local; re-executed line by line (the model predicts `send` vs `rsend` from the proved placement functions)
    from props import runlib
    keep = dict(ctx.coverage)
    runlib.peer_matrix(ctx, 16, 200, salt=14)
    pm = ctx.coverage.get("peer_mode")
    ctx.coverage.clear()
    ctx.coverage.update(keep)
    ctx.coverage["routing_at_use(two-rank peer runs)"] = pm
