"""Shared part of the checks C12 / C05 / C13 (rollbackable buddy allocator, src/mm/buddy).

One Lean model (RootSim.Model.Alloc) and one driver mode (`alloc`) serve the three properties; the C harness
harness/hc12.c is built twice from the working tree (real 64 KiB arena; 256-byte arena via the
VERIF_B_TOTAL_EXP / VERIF_B_BLOCK_EXP hook of buddy.h) and run with the op mix of the property:
  * real arena, seeded random histories,
  * small arena, seeded random histories,
  * small arena, ALL op sequences of a fixed length.
Every run yields an ops file (replayed by the Lean driver, K-diff) and an oracle file (S: the property
evaluated on the implementation against the harness' own shadow of the live blocks and checkpoints).
"""
import json
import os
import vlib

SOURCES = ["src/mm/buddy/buddy.c", "src/mm/buddy/multi.c", "src/mm/buddy/ckpt.c"]
SMALL_DEFS = ["VERIF_B_TOTAL_EXP=8", "VERIF_B_BLOCK_EXP=4"]

TRUSTED = [
    "system malloc/realloc/free, memcpy/memset/memmove; where the system allocator places a new arena is an input of "
    "the model (`ins`), sampled, not controlled",
    "model on Nat: uint8_t / uint_fast32_t / array_count_t wrap-around is not modelled (refs < 2^31, sizes are "
    "size_t values; calloc's product is taken mod 2^64 as in C)",
    "ROOTSIM_INCREMENTAL code is outside the model (not compiled by default)",
]
ASSUMPTIONS = [
    "API contract: pointers passed to rs_free/rs_realloc are NULL or the start of a live block of the current LP; "
    "the model program writes only inside live blocks",
    "checkpoint refs are strictly increasing (each below 2^31); restore/fossil are called with a non-empty log and a "
    "target >= the ref of the oldest logged checkpoint (the C scan has no lower bound check)",
    "1 <= B_BLOCK_EXP <= B_TOTAL_EXP; single LP at a time per thread (current_lp)",
]

# (real-arena ops, small-arena ops, exhaustive depth) per tier
SIZES = {"quick": (6000, 400000, 4), "thorough": (60000, 3000000, 5)}


def lean_side(ctx, module, theorems):
    """T: build + audits. With an empty theorem list (proofs not merged yet) only the model and driver are built."""
    if theorems:
        ok, _ = ctx.lean_build([module])
    else:
        ok, _ = ctx.lean_build(["RootSim"])
    ctx.token_audit()
    if ok and theorems:
        ctx.axiom_audit(module, theorems)
        if ctx.tier == "thorough":
            ctx.leanchecker(module)
    return ok


def build(ctx):
    srcs = [os.path.join(vlib.HARNESS, "hc12.c")] + [os.path.join(vlib.REPO, s) for s in SOURCES]
    ok = ctx.cc("hc12", srcs)
    ok &= ctx.cc("hc12s", srcs, defs=SMALL_DEFS)
    return ok


def one_run(ctx, tag, binary, mix, size, seed, env=None):
    """run the harness once, K-diff its ops through the model, turn oracle lines into violations; returns stats"""
    ops, cf, orf = ctx.path("ops_" + tag), ctx.path("c_" + tag), ctx.path("oracle_" + tag)
    # a hang of the implementation (e.g. a lookup loop that never ends) counts as a crash: rc 124
    rc, out = vlib.run([ctx.path(binary), str(seed), mix, str(size), ops, cf, orf],
                       timeout=120 if ctx.tier == "quick" else 7200, env=env)
    ctx.oblige("harness-run:%s" % tag, rc == 0, out[-800:])
    oracle = open(orf).read().splitlines() if os.path.exists(orf) else []
    # rs_calloc serving a wrapped nmemb*size is reported under its own kind (listed in known_findings.json)
    known = [l for l in oracle if l.startswith("CALLOC-OVERFLOW ")]
    oracle = [l for l in oracle if not l.startswith("CALLOC-OVERFLOW ")]
    for l in known[:1]:
        ctx.violation("calloc-overflow", {"run": tag, "input": l}, True)
    for l in oracle[:5]:
        kind = l.split()[0]
        ctx.violation("alloc-oracle", {"run": tag, "check": kind, "input": l}, True)
    if rc == 124:
        ctx.violation("harness-hang", {"run": tag, "output": out[-800:]}, True)
        return None
    if rc != 0:
        # sanitizer abort / crash of the implementation is a result in itself
        ctx.violation("harness-crash", {"run": tag, "output": out[-1500:]}, True)
        return None
    stats = json.loads(out.strip().splitlines()[-1])
    div = ctx.kdiff("alloc", tag, ops, cf)
    if div and not oracle:
        # implementation and model disagree but no property-level check failed: show the history up to the line
        lines = open(ops).read().splitlines()
        i = div["line"] - 1
        start = max(j for j in range(i + 1) if lines[j].startswith("cfg"))
        div["history"] = lines[start:i + 1][-40:]
    if not ctx.samples:
        ctx.samples += open(ops).read().splitlines()[1:9]
    return stats


def run_all(ctx, mix, exh_mix, nontrivial, rule):
    """the three runs of a property; `nontrivial(stats)` picks the count that matters for it"""
    if not build(ctx):
        return
    n_real, n_small, depth = SIZES["quick" if ctx.tier == "quick" else "thorough"]
    depth = int(os.environ.get("VERIF_EXH_DEPTH", depth))
    runs = [
        # a small quarantine lets the system allocator reuse freed chunks, so new arenas are also inserted
        # before / between existing ones (with the default 256 MB they only ever appear at the end)
        ("real-random", "hc12", mix, n_real, ctx.seed, {"ASAN_OPTIONS": "quarantine_size_mb=16"}),
        ("small-random", "hc12s", mix, n_small, ctx.seed, None),
        ("small-exhaustive", "hc12s", exh_mix, depth, ctx.seed, None),
    ]
    dist = {}
    for tag, binary, m, size, seed, env in runs:
        st = one_run(ctx, tag, binary, m, size, seed, env)
        if st is not None:
            dist[tag] = st
    if not dist:
        return
    variants = sorted(set(s.get("calloc_overflow_checked") for s in dist.values()))
    ctx.coverage.update({
        # which rs_calloc the tree under test has (detected by the harness by behaviour; the model follows it):
        # 0 = pinned code, serves wrapped products (known finding F-ALLOC-1); 1 = overflow -> ENOMEM
        "calloc_overflow_checked": variants[0] if len(variants) == 1 else variants,
        "evaluations": sum(s["ops_total"] for s in dist.values()),
        "distinct_nontrivial": sum(nontrivial(s) for s in dist.values()),
        "oracle_checks": sum(s["oracle_checks"] for s in dist.values()),
        "exhaustive_sequences": sum(s["exhaustive_sequences"] for s in dist.values()),
        "exhaustive_depth": depth,
        "rule": rule,
        "input_distribution": dist,
    })
