"""C15 - inter-thread message queue: the buffer half (no loss, no duplication, peek is a lower bound) and the private-heap
half (extraction returns a minimum time stamp for every time-consistent comparator; heap macros tied by harness/hc10.c)."""
import json
import os
import vlib

THEOREMS = ["RootSim.C15.invariant", "RootSim.C15.no_loss_no_dup", "RootSim.C15.extracted_at_most_once",
            "RootSim.C15.swap_takes_all", "RootSim.C15.taken_after_swap", "RootSim.C15.peek_lower_bound",
            "RootSim.C15.extract_returns_min", "RootSim.MQueue.step_inv", "RootSim.MQueue.init_inv"]


THEOREMS_HEAP = [
    "RootSim.C15.Heap.insert_perm", "RootSim.C15.Heap.extract_perm", "RootSim.C15.Heap.extract_eq_root",
    "RootSim.C15.Heap.insert_timeHeap", "RootSim.C15.Heap.extract_timeHeap", "RootSim.C15.Heap.min_time_le",
    "RootSim.C15.Heap.extract_min_time", "RootSim.C15.Heap.reach_timeHeap", "RootSim.C15.Heap.qElem_timeConsistent",
]


def heap_part(ctx):
    """private-heap half: the real heap macros instantiated with q_elem_is_before (as msg_queue.c does) vs Model/Heap.lean"""
    ok, _ = ctx.lean_build(["RootSim.Props.C15Heap"])
    if ok:
        ctx.axiom_audit("RootSim.Props.C15Heap", THEOREMS_HEAP)
    if not ctx.cc("hc10", [os.path.join(vlib.HARNESS, "hc10.c")]):
        return
    n = 20000 if ctx.tier == "quick" else 500000
    ops, cf, orf = ctx.path("hops"), ctx.path("hc"), ctx.path("horacle")
    rc, out = vlib.run([ctx.path("hc10"), str(ctx.seed + 7), str(n), ops, cf, orf], timeout=3000)
    ctx.oblige("harness-run:hc10(heap half of C15)", rc == 0, out[-500:])
    if rc != 0:
        ctx.violation("harness-crash", {"output": out[-800:]}, True)
        return
    ctx.kdiff("heap", "private heap (insert, extract, min; whole array layout; anti-flag flips while queued)", ops, cf)
    for l in open(orf).read().splitlines()[:5]:
        ctx.violation("heap-oracle", {"what": l.split()[1] if len(l.split()) > 1 else l, "input": l}, True)
    ctx.coverage["heap_half"] = json.loads(out.strip().splitlines()[-1])


def stress_part(ctx):
    """free-running OS threads (no scheduler, no model): the property itself evaluated on the real queue under real contention -
    windows that the token scheduler cannot open (code between two hook points) are reached here"""
    if not ctx.cc("hc15s", [os.path.join(vlib.HARNESS, "hc15s.c")], sanitize=False, opt="-O2"):
        return
    tot = {"rounds": 0, "produced": 0}
    for k, prod in enumerate([1, 3, 6] if ctx.tier == "quick" else [1, 2, 3, 4, 6, 8, 12]):
        rounds = 150000 if ctx.tier == "quick" else 2000000
        rc, out = vlib.run([ctx.path("hc15s"), str(ctx.seed + k), str(rounds), str(prod)], timeout=1200)
        try:
            st = json.loads(out.strip().splitlines()[-1])
        except (ValueError, IndexError):
            ctx.violation("harness-crash", {"output": out[-600:], "producers": prod}, True)
            continue
        tot["rounds"] += st["rounds"]
        tot["produced"] += st["produced"]
        bad = {k2: v for k2, v in st.items() if k2 in ("peek_above_pending", "duplicates", "lost", "own_not_returned") and v}
        if bad:
            ctx.violation("queue-stress-oracle", {"argv": [ctx.seed + k, rounds, prod], "failures": bad,
                                                  "meaning": "peek_above_pending: msg_queue_time_peek() returned a value larger than the time stamp of a message "
                                                             "whose insertion had completed before the query began and that had not been extracted"}, True)
    ctx.coverage["free_running_stress"] = tot


def run(ctx):
    heap_part(ctx)
    stress_part(ctx)
    ctx.trusted += [
        "C15: sequentially consistent interleaving of the individual shared-memory accesses of msg_queue_insert / "
        "msg_queue_insert_queued (load, CAS incl. spurious failure, exchange, walk); release/acquire NOT modelled",
        "C15: the private heap is abstracted to a multiset whose extraction returns an element of minimal time stamp "
        "(heap work package; checked here only by the correspondence run and the S oracle)",
        "C15: the deterministic token scheduler harness/vsched_step.h and the yield points compiled into msg_queue.c"]
    ctx.assumptions += ["one consumer per buffer (the owning thread); a message is inserted by one thread at a time; "
                        "a re-inserted message counts as a new insertion"]
    ok, _ = ctx.lean_build(["RootSim.Props.C15"])
    ctx.token_audit()
    if ok:
        ctx.axiom_audit("RootSim.Props.C15", THEOREMS)
        if ctx.tier == "thorough":
            ctx.leanchecker("RootSim.Props.C15")
    if not ctx.cc("hc15", [os.path.join(vlib.HARNESS, "hc15.c")]):
        return
    n = 400 if ctx.tier == "quick" else 10000
    ops, cf, orf = ctx.path("ops"), ctx.path("c"), ctx.path("oracle")
    rc, out = vlib.run([ctx.path("hc15"), str(ctx.seed), str(n), ops, cf, orf], timeout=3000)
    ctx.oblige("harness-run:hc15", rc == 0, out[-800:])
    if rc != 0:
        ctx.violation("harness-crash", {"output": out[-800:]}, True)
        return
    stats = json.loads(out.strip().splitlines()[-1])
    ctx.coverage.update({"evaluations": stats["steps"], "distinct_nontrivial": stats["cas_fail"],
                         "rule": "scheduled steps of the real msg_queue_insert/extract/time_peek compared with the model "
                                 "(1..4 producers + consumer, 5 scheduling policies, tied time stamps); non-trivial = "
                                 "failed CAS attempts (another producer or the consumer's swap interfered between load and CAS)",
                         "input_distribution": stats})
    div = ctx.kdiff("mqueue", "schedule lock-step(ids, CAS outcome, extracted id+time stamp, peek value)", ops, cf)
    ctx.samples += open(ops).read().splitlines()[:3]
    lines = open(orf).read().splitlines()
    for l in lines[:5]:
        det = {"what": l.split()[0], "input": l}
        if l.startswith("CRASH"):
            # sanitizer report / abort message of the child that ran the scenario
            det["stderr"] = "\n".join(x for x in out.splitlines() if not x.startswith("{"))[:1500]
        ctx.violation("mqueue-oracle", det, True)
    if div and not lines:
        sched = open(ops).read().splitlines()[:div["line"]]
        start = max(i for i, l in enumerate(sched) if l.startswith("init"))
        ctx.violation("mqueue-divergence", {"what": "model/implementation divergence", "at": div,
                                            "schedule": sched[start:]}, True)
