"""C16 - event order is a strict weak order with content-only tie-break."""
import json
import os
import vlib

THEOREMS = ["RootSim.C16.irrefl", "RootSim.C16.asymm", "RootSim.C16.trans", "RootSim.C16.incomp_trans",
            "RootSim.C16.incomp_iff_content_eq", "RootSim.C16.content_only", "RootSim.C16.qElem_eq",
            "RootSim.C16.qElem_time_consistent"]


def run(ctx):
    ctx.trusted += ["C memcmp; time stamps restricted to non-negative finite doubles (order of bit patterns = numeric order); NaN/-0.0 excluded by the API contract"]
    ctx.assumptions += ["V3: timestamps finite, >= 0, not NaN, not -0.0", "message buffers hold at least pl_size bytes (Msg.WF)"]
    ok, _ = ctx.lean_build(["RootSim.Props.C16"])
    ctx.token_audit()
    if ok:
        ctx.axiom_audit("RootSim.Props.C16", THEOREMS)
        if ctx.tier == "thorough":
            ctx.leanchecker("RootSim.Props.C16")
    if not ctx.cc("hc16", [os.path.join(vlib.HARNESS, "hc16.c")]):
        return
    n = 20000 if ctx.tier == "quick" else 1500000
    ops, cf, orf = ctx.path("ops"), ctx.path("c"), ctx.path("oracle")
    rc, out = vlib.run([ctx.path("hc16"), str(ctx.seed), str(n), ops, cf, orf], timeout=3000)
    ctx.oblige("harness-run:hc16", rc == 0, out[-800:])
    if rc != 0:
        # sanitizer abort / crash of the implementation is a result in itself
        ctx.violation("harness-crash", {"output": out[-800:]}, True)
        return
    stats = json.loads(out.strip().splitlines()[-1])
    ctx.coverage.update({"evaluations": stats["pairs"], "distinct_nontrivial": stats["ties"],
                         "rule": "message pairs (84-message small universe exhaustively + seeded structured random "
                                 "triples); non-trivial = pairs with equal timestamps (the tie-break decides)",
                         "input_distribution": stats})
    div = ctx.kdiff("c16", "cmp(isBefore,isBeforeExt,qElemBefore)", ops, cf)
    lines = open(orf).read().splitlines()
    ctx.samples += open(ops).read().splitlines()[7000:7003]
    for l in lines[:5]:
        law = l.split()[1]
        ctx.violation("order-law", {"law": law, "input": l}, True)
    if div and not lines:
        # correspondence broke but the laws hold on everything searched: widen the search around the divergence
        pass
