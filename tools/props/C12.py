"""C12 - the rollbackable allocator returns valid, disjoint, stable blocks."""
from . import alloc_common as ac

MODULE = "RootSim.Props.C12"
THEOREMS = ["RootSim.C12.inv_init",
            "RootSim.C12.inv_step",
            "RootSim.C12.inv_run",
            "RootSim.C12.inv_arenas",
            "RootSim.C12.live_block_valid",
            "RootSim.C12.live_blocks_disjoint",
            "RootSim.C12.blockExp_is_max_B_clog2",
            "RootSim.C12.malloc_block",
            "RootSim.C12.malloc_succeeds",
            "RootSim.C12.malloc_live",
            "RootSim.C12.malloc_disjoint",
            "RootSim.C12.free_live",
            "RootSim.C12.free_reusable",
            "RootSim.C12.free_all_coalesces",
            "RootSim.C12.frame",
            "RootSim.C12.realloc_in_place",
            "RootSim.C12.realloc_moves",
            "RootSim.C12.malloc_zero",
            "RootSim.C12.malloc_too_big",
            "RootSim.C12.calloc_zero_product",
            "RootSim.C12.realloc_zero",
            "RootSim.C12.realloc_null_zero",
            "RootSim.C12.realloc_null",
            "RootSim.C12.realloc_too_big",
            "RootSim.C12.calloc_zeroed",
            "RootSim.C12.calloc_wraparound_counterexample",
            "RootSim.C12.calloc_overflow_fails",
            "RootSim.C12.calloc_zeroed_checked",
            "RootSim.C12.calloc_fails_cleanly",
            "RootSim.C12.callocStatement_patched",
            "RootSim.C12.callocStatement_pinned_false",
            "RootSim.C12.descent_safe",
            "RootSim.C12.buddy_malloc_null_iff",
            "RootSim.C12.reachable_trees_wf"]


def run(ctx):
    ctx.trusted += ac.TRUSTED
    ctx.assumptions += ac.ASSUMPTIONS
    ac.lean_side(ctx, MODULE, THEOREMS)
    ac.run_all(ctx, "c12", "exh",
               lambda s: s["alloc_ok"]["malloc"] + s["alloc_ok"]["calloc"] + s["alloc_ok"]["realloc"],
               "API calls on the real allocator (64 KiB arena random histories, 256-byte arena random histories, and "
               "ALL op sequences of the stated depth on the 256-byte arena); after every call the S oracle checks "
               "placement/alignment/disjointness of the result, failure cases, every byte of every live block, "
               "full_ckpt_size and the allocation trees against the harness' shadow; non-trivial = successful "
               "allocations (malloc + calloc + realloc)")
