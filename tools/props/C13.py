"""C13 - fossil collection never discards what a legal rollback can need."""
from props import runlib
from props import alloc_C13

THEOREMS = ["RootSim.C05LP.rollback_after_fossil_exact", "RootSim.C05LP.run_exact", "RootSim.LP.fossil_inv",
            "RootSim.LP.rollback_exact"]


def run(ctx):
    # allocator level (work package ALLOC): model of buddy.c/multi.c/ckpt.c, API-level correspondence
    alloc_C13.run(ctx)
    alloc_cov = dict(ctx.coverage)
    # LP level: model of process.c/fossil.c, full-run re-execution
    ctx.trusted += ["sequentially consistent execution under the token scheduler",
                    "LP-level model: a checkpoint is the state itself (allocator-level log handling: ALLOC part)"]
    ctx.assumptions += ["V1 deterministic handlers", "GVT values handed to fossil collection are safe lower bounds (C04)"]
    runlib.lean_part(ctx, "RootSim.Props.C05LP", THEOREMS)
    # long runs with frequent GVT rounds so that fossil collection happens often and rollbacks follow it
    agg = runlib.run_matrix(ctx, "par re-execution (entries released by fossil collection, re-based checkpoint refs, rollbacks after fossil)",
                            30, 300, oracle_keys=("s_rb_mismatch", "s_below_gvt"), threads=(2, 3, 4), ckpts=(1, 2, 3, 7),
                            fossil_heavy=True, sparse=4)
    if agg:
        ctx.coverage["distinct_nontrivial"] = agg.tot.get("s_rb_after_fossil", 0)
        ctx.coverage["fossil_collections"] = agg.tot.get("fossil", 0)
        ctx.coverage["rule"] = ("seeded GenModel runs with short GVT periods; non-trivial = rollbacks executed on an LP after at least one "
                                "fossil collection of that LP, each checked for exact state (S oracle digest + Lean re-execution)")
    ctx.coverage["allocator_level"] = {k: v for k, v in alloc_cov.items() if k in ("evaluations", "distinct_nontrivial", "rule", "input_distribution", "correspondence")}
