"""C09 - results are configuration-independent and repeatable; RNG replays after rollback."""
import concurrent.futures
import json
import random
from props import runlib

THEOREMS = ["RootSim.C05LP.run_exact", "RootSim.C05LP.rollback_exact", "RootSim.C01.lp_state_is_fold"]

THEOREMS_D = ['RootSim.PrefixUnique.history_unique']


def run(ctx):
    ctx.trusted += ["sequentially consistent execution under the token scheduler",
                    "the RNG state is part of the LP state sigma of the LP model (it lives in rollbackable memory: first allocation of the LP), "
                    "so rollback_exact covers it; the digest compared at every rollback includes the four generator words"]
    ctx.assumptions += ["valid-model contract V1-V5"]
    runlib.lean_part(ctx, "RootSim.Props.C01", THEOREMS)
    runlib.lean_part(ctx, "RootSim.Props.PrefixUnique", THEOREMS_D)
    # glue (E): every reachable state of the abstract global Time Warp machine satisfies Hist (Props/C01Glue.lean)
    runlib.lean_part(ctx, "RootSim.Props.C01Glue", ['RootSim.C01Glue.reachable_hist','RootSim.C01Glue.tw_schedule_independent','RootSim.C01Glue.tw_quiescent_final'])
    runlib.lean_part(ctx, "RootSim.Props.C01GlueV2", ['RootSim.C01GlueV2.tw_schedule_independent_V2'])
    # schedule independence instantiated for the GenModel family (strict mode on the content-level machine, both modes on the machine
    # with the code's straggler rule), from the relativised contracts the family really satisfies (Props/GenModelContract.lean)
    runlib.lean_part(ctx, "RootSim.Props.GenModelContract", ['RootSim.GenModelContract.genmodel_V2s','RootSim.GenModelContract.genmodel_V2','RootSim.GenModelContract.genmodel_tw_schedule_independent','RootSim.GenModelContract.genmodel_fwd_tw_schedule_independent_D','RootSim.GenModelContract.v2sOn_tw_schedule_independent','RootSim.GenModelContract.v2On_tw_schedule_independent_D'])
    if not runlib.build(ctx):
        return
    # metamorphic matrix: the SAME model+seed under different (threads, ckpt, period, schedule); all final states must be equal
    rnd = random.Random(ctx.seed * 31 + 5)
    n_models = 6 if ctx.tier == "quick" else 60
    agg = runlib.Agg()
    groups = []
    jobs = []
    for g in range(n_models):
        base = runlib.gen_configs(ctx, 1)[0]
        base.update({"mseed": rnd.randrange(1, 1 << 30), "pseed": rnd.randrange(1, 1 << 40), "lps": rnd.choice([2, 3, 4, 6]),
                     "rng": 1, "mem": 1, "thr": rnd.choice([40, 80, 150])})
        variants = []
        for k in range(6):
            c = dict(base)
            c.update({"threads": rnd.choice([1, 2, 3, 4]), "ckpt": rnd.choice([1, 2, 3, 7, 0]), "period": rnd.choice([0, 10, 1000]),
                      "burst": rnd.choice([0, 20, 200]), "seed": rnd.randrange(1, 1 << 30)})
            variants.append(c)
        # repetition with an identical configuration
        variants.append(dict(variants[0]))
        groups.append(variants)
        for k, c in enumerate(variants):
            jobs.append((g, k, c))

    def one(j):
        g, k, c = j
        ops, cf = ctx.path("ops_%d_%d" % (g, k)), ctx.path("c_%d_%d" % (g, k))
        r = runlib.run_one(ctx, "par", c, "m%d_%d" % (g, k))
        return g, k, r

    finals = {}
    with concurrent.futures.ThreadPoolExecutor(max_workers=12) as ex:
        for g, k, r in ex.map(one, jobs):
            agg.add(r)
            finals.setdefault(g, []).append((k, r))
    runlib.standard_verdicts(ctx, agg, "par re-execution of a metamorphic configuration matrix", ("s_rb_mismatch",))
    # S oracle: pairwise equality of final outcomes (taken from the implementation's own finilp lines)
    pairs = 0
    for g, lst in finals.items():
        digs = {}
        for k, r in lst:
            if r["outcome"] == "ok" and r.get("finals"):
                digs[k] = r["finals"]
        ks = sorted(digs)
        for a in ks[1:]:
            pairs += 1
            if digs[a] != digs[ks[0]]:
                ctx.violation("config-dependence", {"cfg_a": groups[g][ks[0]], "cfg_b": groups[g][a],
                                                    "finals_a": digs[ks[0]], "finals_b": digs[a]}, True)
    pairs += runlib.lib_matrix(ctx, rnd)
    ctx.coverage["distinct_nontrivial"] = pairs
    ctx.coverage["rule"] = ("for each seeded model+seed: 6 configurations (threads, checkpoint interval, GVT period, schedule) + 1 repetition; "
                            "non-trivial = pairs of completed runs whose per-LP final state digests (RNG words included) were compared")
    # refinement of the concrete kernel to the abstract global Time Warp machine of the glue theorems, checked on small runs
    runlib.tw_matrix(ctx, 12, 400, salt=9)
    # LPs without a state pointer whose only rollbackable state is the library generator (first draw in a speculative event)
    runlib.stateless_matrix(ctx, 16, 400, salt=9)
