"""C17 - thread barrier: no early pass, exactly one leader per use, reusable, no deadlock inside."""
import json
import os
import vlib

THEOREMS = ["RootSim.C17.invariant_inductive", "RootSim.C17.reusable", "RootSim.C17.reusable_exec",
            "RootSim.C17.no_early_pass", "RootSim.C17.passed_imp_all_entered", "RootSim.C17.no_wrap",
            "RootSim.C17.at_most_one_leader", "RootSim.C17.exactly_one_leader",
            "RootSim.C17.returned_flag_recorded", "RootSim.C17.progress", "RootSim.C17.guard_iff_all_entered",
            "RootSim.C17.deadlock_free",
            "RootSim.Barrier.enter_inv", "RootSim.Barrier.exit_inv", "RootSim.Barrier.init_inv"]


def run(ctx):
    ctx.trusted += [
        "C17: sequentially consistent interleaving of the individual atomic operations (one model step per "
        "atomic_fetch_add / atomic_load); the C11 memory_order annotations (acq_rel, relaxed) are NOT modelled",
        "C17: the deterministic token scheduler harness/vsched_step.h; the yield points compiled into sync.c "
        "(VERIF_YIELD before the fetch_add and before every load of the spin loops)"]
    ctx.assumptions += ["global_config.n_threads = number of threads that call the barrier, 0 < N < 2^32",
                        "every participating thread calls the barrier the same number of times (progress only)"]
    ok, _ = ctx.lean_build(["RootSim.Props.C17"])
    ctx.token_audit()
    if ok:
        ctx.axiom_audit("RootSim.Props.C17", THEOREMS)
        if ctx.tier == "thorough":
            ctx.leanchecker("RootSim.Props.C17")
    if not ctx.cc("hc17", [os.path.join(vlib.HARNESS, "hc17.c")]):
        return
    n = 500 if ctx.tier == "quick" else 12000
    ops, cf, orf = ctx.path("ops"), ctx.path("c"), ctx.path("oracle")
    rc, out = vlib.run([ctx.path("hc17"), str(ctx.seed), str(n), ops, cf, orf], timeout=3000)
    ctx.oblige("harness-run:hc17", rc == 0, out[-800:])
    if rc != 0:
        ctx.violation("harness-crash", {"output": out[-800:]}, True)
        return
    stats = json.loads(out.strip().splitlines()[-1])
    ctx.coverage.update({"evaluations": stats["steps"], "distinct_nontrivial": stats["fast_reentry_steps"],
                         "rule": "scheduled steps of the real sync_thread_barrier compared with the model "
                                 "(N in 2..6, 1..16 uses, 5 scheduling policies); non-trivial = fetch_add steps "
                                 "executed while another thread has not yet left the previous use (fast re-entry)",
                         "input_distribution": stats})
    div = ctx.kdiff("barrier", "schedule lock-step(yield point, returned use, leader flag)", ops, cf)
    ctx.samples += open(ops).read().splitlines()[:3]
    lines = open(orf).read().splitlines()
    for l in lines[:5]:
        det = {"what": l.split()[0], "input": l}
        if l.startswith("CRASH"):
            # sanitizer report / abort message of the child that ran the scenario
            det["stderr"] = "\n".join(x for x in out.splitlines() if not x.startswith("{"))[:1500]
        ctx.violation("barrier-oracle", det, True)
    if div and not lines:
        # the implementation left the model although the property-level oracle saw nothing: report the
        # divergent schedule prefix as the failing input of the correspondence obligation
        sched = open(ops).read().splitlines()[:div["line"]]
        start = max(i for i, l in enumerate(sched) if l.startswith("init"))
        ctx.violation("barrier-divergence", {"what": "model/implementation divergence", "at": div,
                                             "schedule": sched[start:]}, True)
