"""C13 - fossil collection never discards what a legal rollback can need (allocator part)."""
from . import alloc_common as ac

MODULE = "RootSim.Props.C13"
THEOREMS = ["RootSim.C13.Alloc.logs_sorted",
            "RootSim.C13.Alloc.logs_nonempty_take",
            "RootSim.C13.Alloc.logs_nonempty_step",
            "RootSim.C13.Alloc.fossil_keeps",
            "RootSim.C13.Alloc.firstRefZero_after_fossil",
            "RootSim.C13.Alloc.firstRefZero_step",
            "RootSim.C13.Alloc.restore_defined_iff",
            "RootSim.C13.Alloc.fossil_defined_iff",
            "RootSim.C13.Alloc.scanSafe_of_low",
            "RootSim.C13.Alloc.low_step",
            "RootSim.C13.Alloc.usage_pattern_scans_safe",
            "RootSim.C13.Alloc.restore_after_fossil",
            "RootSim.C13.Alloc.restore_defined_after_fossil",
            "RootSim.C13.Alloc.restore_exact_after_fossil"]


def run(ctx):
    ctx.trusted += ac.TRUSTED
    ctx.assumptions += ac.ASSUMPTIONS
    ac.lean_side(ctx, MODULE, THEOREMS)
    ac.run_all(ctx, "c13", "exh13", lambda s: s["ops"]["fossil"],
               "API calls on the real allocator with checkpoints at small ref gaps, fossil collections with every "
               "distance 0..4 between target and kept checkpoint, followed by restores into the kept range; after "
               "every fossil collection the S oracle checks the returned ref, the re-based refs and buffers of the "
               "kept checkpoints and that the allocator state is untouched; later restores are checked against the "
               "snapshots (C05 oracle); non-trivial = fossil collections")
