"""C19 - topology queries are mutually consistent and rollback-safe.

T: RootSim.Props.C19 (model RootSim.Model.Topology: the pinned tree AND the tree with the three
   proposed patches, selected by variant flags).
K: harness/hc19.c drives the public API of the real topology.c/random.c; the same op lines go through
   the Lean driver (mode `topo`).  The harness detects by behaviour which of the three patches are in
   the working tree and tells the driver which model variant to run (`variant c s f` line).
S: the relations of the property evaluated on the C API (receiver in range + IsNeighbor, count =
   number of valid fixed directions / other regions / links, random finds a neighbour iff one
   exists, purity under interleaved calls of another LP and under concurrent threads).
On the unpatched tree S reports the findings F4a/F4b/F4c/F5; they are listed in known_findings.json
(delete those entries once the patches of repo_patches/topology-*.diff are applied).
"""
import glob
import json
import os
import vlib

THEOREMS = ["RootSim.C19." + t for t in [
    "wf_of_init", "wf_of_links",
    "receiver_validV", "receiver_valid", "receiver_valid_orig_counterexample", "receiver_valid_orig_partial",
    "receiver_valid_grid", "receiver_valid_ring", "receiver_valid_bidring", "receiver_valid_graph",
    "receiver_valid_mesh", "receiver_valid_star",
    "random_someV", "random_invalidV", "arrays_ok_preserved",
    "random_valid", "random_some_if_any", "random_some_if_any_fixed", "random_invalid_if_none",
    "random_some_if_any_orig_partial",
    "count_eq_valid_dirs", "count_star", "count_mesh", "count_graph",
    "count_orig_counterexample_square", "count_orig_counterexample_hexagon",
    "count_eq_valid_dirs_orig_counterexample", "count_square_orig_iff", "count_hexagon_orig_iff",
    "count_eq_valid_dirs_orig_partial", "validDirs_orig_spec",
    "random_pure", "random_impure_orig_replay", "random_pure_orig_counterexample",
    "random_pure_orig_partial", "random_pure_orig_exact"]]

KIND = {"COUNT_MISMATCH": "count-mismatch", "RECV_RANGE": "receiver-out-of-range",
        "RECV_NOT_NEIGHBOR": "receiver-not-neighbor", "RANDOM_NONE": "random-none",
        "RANDOM_PHANTOM": "random-phantom", "IMPURE": "random-impure", "IMPURE_STATE": "random-impure-state",
        "IMPURE_THREADS": "random-impure-threads"}


def run(ctx):
    ctx.trusted += [
        "random source abstracted: the values drawn by the library (RandomRange / Random) are inputs of the "
        "model; the harness obtains them by snapshotting the LP's generator state, calling the public "
        "RandomRange/Random the same number of times and restoring the state (their range is property C18)",
        "graph: `rand < cumulative` is an abstract Boolean per loop iteration (link probabilities are not modelled)",
        "which of the three proposed patches are in the tree is detected by behaviour (1x1 square count, "
        "single-region star, repeated random query) and selects the model variant of the correspondence run",
        "data race on the static direction arrays (pinned tree) is only observed (thread phase of the harness), not modelled"]
    ctx.assumptions += [
        "width*height < 2^32 (no wrap-around of `unsigned regions`), width,height >= 1; region counts 1 <= n < 2^32",
        "star: regions-1 <= INT_MAX (the C code casts to int)",
        "random inputs within their contract (RinOK): RandomRange(i,n-1) < n, star draw in [1,regions-1], "
        "mesh candidates < regions and eventually != from",
        "graph: AddTopologyLink called with from,to < regions (asserts compiled out in NDEBUG builds)"]
    ok, _ = ctx.lean_build(["RootSim.Props.C19"])
    ctx.token_audit()
    if ok:
        ctx.axiom_audit("RootSim.Props.C19", THEOREMS)
        if ctx.tier == "thorough":
            ctx.leanchecker("RootSim.Props.C19")
    src = os.path.join(vlib.REPO, "src")
    srcs = [os.path.join(vlib.HARNESS, "hc19.c"), os.path.join(src, "lib/topology/topology.c"),
            os.path.join(src, "lib/random/random.c"), os.path.join(src, "lib/random/xxtea.c")]
    if not ctx.cc("hc19", srcs):
        return
    if ctx.tier == "quick":
        n_random, max_dim, max_regions, thread_iters = 30000, 8, 40, 20000
    else:
        n_random, max_dim, max_regions, thread_iters = 400000, 16, 100, 300000
    ops, cf, orf = ctx.path("ops"), ctx.path("c"), ctx.path("oracle")
    san = ctx.path("san")
    rc, out = vlib.run([ctx.path("hc19"), str(ctx.seed), str(n_random), str(max_dim), str(max_regions),
                        str(thread_iters), ops, cf, orf], timeout=3000,
                       env={"ASAN_OPTIONS": "log_path=%s:detect_leaks=1" % san,
                            "UBSAN_OPTIONS": "log_path=%s:print_stacktrace=1" % san})
    san_txt = "".join(open(f, errors="replace").read() for f in glob.glob(san + "*"))[-1500:]
    ctx.oblige("harness-run:hc19", rc == 0, (out[-400:] + san_txt))
    if rc != 0:
        ctx.violation("harness-crash", {"output": out[-400:], "sanitizer": san_txt}, True)
        return
    stats = json.loads(out.strip().splitlines()[-1])
    variant = {"count": "patched" if stats["fix_count"] else "pinned",
               "star": "patched" if stats["fix_star"] else "pinned",
               "shuffle": "patched" if stats["fix_shuffle"] else "pinned"}
    ctx.coverage.update({
        "evaluations": stats["lines"], "distinct_nontrivial": stats["recv_random"],
        "rule": "one evaluation = one public API call (init/recv/count/isnb/link) compared with the model; "
                "exhaustive: all 8 geometries x all sizes 1..%d x 1..%d (regions 1..%d) x all sources x direction codes "
                "0..9,1000 x IsNeighbor against every target; plus seeded random sizes up to 2^32-1 regions and random "
                "graphs; non-trivial = DIRECTION_RANDOM queries with crafted generator states" % (max_dim, max_dim, max_regions),
        "model_variant_compared": variant,
        "input_distribution": stats})
    ctx.kdiff("topo", "topology-api(init,recv,count,isnb,link)", ops, cf)
    lines = open(ops).read().splitlines()
    ctx.samples += [l for l in lines if l.startswith("recv") and l.split()[2] == "8"][1000:1004] + lines[50:53]
    # S oracle
    seen = {}
    for l in open(orf).read().splitlines():
        f = l.split()
        kv = dict(x.split("=", 1) for x in f[1:])
        key = (f[0], kv.get("class"), kv.get("geom"))
        if key not in seen:
            seen[key] = [0, l]
        seen[key][0] += 1
    for (kind, cls, geom), (n, first) in sorted(seen.items()):
        ctx.violation(KIND.get(kind, kind), {"class": cls, "geometry": geom, "occurrences": n, "first": first}, True)
