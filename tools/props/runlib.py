"""Shared by the properties that are tied to the code through full runs of the real core
(harness/hrun.c: GenModel instance, deterministic scheduler, trace of every decision) re-executed on the
Lean models (driver modes `par` / `serial`)."""
import json
import os
import random
import vlib

F1_SIG = "shutdown-hang"


def build(ctx):
    srcs = [os.path.join(vlib.HARNESS, "hrun.c")] + ctx.core_sources(mpi=False)
    return ctx.cc("hrun", srcs, extra=["-Wl,--wrap=stats_take"])


def gen_configs(ctx, n, threads=(1, 2, 3, 4), ckpts=(1, 2, 3, 7, 0), big=False, tterm=False, fossil_heavy=False, sparse=0):
    rnd = random.Random(ctx.seed * 7919 + 13)
    # separate stream for the V2-only switch, so that all other draws (and therefore all other configurations) are what they were
    rv2 = random.Random(ctx.seed * 15485863 + 29)
    out = []
    for i in range(n):
        lps = rnd.choice([1, 2, 3, 4, 6, 8])
        c = {
            "seed": rnd.randrange(1, 1 << 30), "mseed": rnd.randrange(1, 1 << 30),
            "lps": lps, "types": rnd.choice([2, 3, 4]), "fan": rnd.choice([2, 3, 4]),
            "thr": rnd.choice([20, 40, 80, 150] if not big else [150, 400, 800]),
            "spread": rnd.choice([0, 10, 30]),
            "rng": rnd.choice([0, 1, 1]), "mem": rnd.choice([0, 1, 1]), "t0": 0,
            "threads": rnd.choice(threads), "ckpt": rnd.choice(ckpts),
            "period": rnd.choice([0, 10, 1000, 100000]), "burst": rnd.choice([0, 5, 20, 60, 200, 600]),
            "stay": rnd.choice([0, 2, 3]), "pseed": rnd.randrange(1, 1 << 40),
            "budget": 1500000,
        }
        if rnd.randrange(8) == 0:
            # some LPs satisfy their predicate already at LP_INIT (threshold 0) and are rolled back later like any other LP
            c.update({"thr": 0, "spread": rnd.choice([2, 3, 6, 40])})
        elif rnd.randrange(6) == 0:
            # every 2nd/3rd LP is "done" from the start (threshold 0) and keeps being rolled back by the traffic of the others
            c["spread"] = rnd.choice([2000, 3000]) + rnd.choice([0, 10, 30])
        if tterm:
            c["tterm"] = rnd.choice([40, 100, 400])
        if fossil_heavy:
            c["period"] = rnd.choice([0, 0, 10])
            c["thr"] = rnd.choice([150, 300, 500] if not big else [500, 1000, 2000])
            c["burst"] = rnd.choice([20, 60, 200])
        if i < sparse:
            # LPs on very different time scales and (almost) no cross traffic: the fast-clock LPs run many GVT rounds ahead of the
            # GVT with a history that lies entirely above it (fossil collection finds nothing to release), checkpoint after every event
            c.update({"skew": 500, "fan": rnd.choice([1, 1, 2]), "thr": rnd.choice([2500, 4000]), "spread": 0, "ckpt": 1, "period": 0,
                      "threads": rnd.choice([2, 3]), "lps": rnd.choice([3, 4, 6]), "mem": 0, "rng": 0, "burst": rnd.choice([20, 60, 200]),
                      "budget": 8000000})
            c.pop("tterm", None)
        # batch length of the worker loop (hook verif_batch; separate stream): short batches make GVT rounds and fossil collections
        # up to 30x denser per processed event, so histories are short and rollbacks / anti-messages hit their first entries
        b = rv2.choice([0, 0, 2, 4, 16])
        if b and "skew" not in c:
            c["batch"] = b
            if fossil_heavy and b <= 4:
                c["period"] = 0
        if rv2.randrange(6) == 0:
            # V2-only GenModel mode (bit 1 of t0): zero-delay forwards of IDENTICAL content to the next LP - allowed by the runtime's
            # contract V2, excluded by strict causality V2s; needs a non-tick event type >= 1
            c["t0"] |= 2
            c["types"] = max(c["types"], 3)
            if big:
                c["thr"] = min(c["thr"], 150)  # the forwards multiply the traffic: keep the traces re-executable within the time limit
        out.append(c)
    return out


def run_one(ctx, mode, cfg, tag, model=True):
    """runs the implementation, then the model on the same lines; returns dict(stats, div, outcome)"""
    ops, cf = ctx.path("ops_%s" % tag), ctx.path("c_%s" % tag)
    args = [ctx.path("hrun"), mode, ops, cf] + ["%s=%s" % kv for kv in sorted(cfg.items())]
    rc, out = vlib.run(args, timeout=600)
    stats = None
    for l in out.splitlines():
        if l.startswith("{"):
            try:
                stats = json.loads(l)
            except ValueError:
                pass
    res = {"cfg": cfg, "rc": rc, "stats": stats, "out": out[-1500:], "mode": mode}
    if stats is None:
        # sanitizer abort or crash: a result in itself (the trace written so far is still compared)
        res["outcome"] = "crash"
        stats = {"outcome": "crash"}
    res["outcome"] = stats["outcome"]
    lf = cf + ".lean"
    c = open(cf, errors="replace").read().splitlines()
    if not model:
        # no Lean twin for this configuration (floating-point library calls): implementation-side oracles only
        res["div"] = None
        res["lines"] = 0
        res["sample"] = []
        res["finals"] = sorted(x.split(" seq=")[0] for x in c if x.startswith("finilp"))
        for f in (ops, cf):
            try:
                os.remove(f)
            except OSError:
                pass
        return res
    ok = ctx.driver(mode, ops, lf)
    l = open(lf, errors="replace").read().splitlines()
    o = open(ops, errors="replace").read().splitlines()
    div = None
    n = min(len(c), len(l))
    # the abstract-machine shadows (twshadow / twgshadow): the one known concrete step that is not an action of the content-rule
    # machines (C01Refine.cmpOk_is_needed; Driver/Run.lean: Sys.gapAt: speculation on a doomed entry) IS an action of the machine with
    # the code's straggler rule (Model/TimeWarpD.lean, theorems Props/C01GlueD.lean), which the twg shadow steps (TWD.step? with the
    # split point the code used). The content-level shadow hands the run over to it (HANDOVER marker); the number of such steps is
    # reported (SPECULATED marker). These markers on the model's `end` line are counted here and not treated as a divergence; a
    # SUSPENDED marker (no live companion shadow; should not occur any more) is counted too; a FAILED marker is a divergence.
    suspended = []
    handed = []
    speculated = []
    if l and l[-1].startswith("end ") and "-SHADOW-FAILED" not in l[-1]:
        import re
        tail = r" abstract steps: ext \d+: .*?\(C01Refine\.cmpOk_is_needed\)"
        suspended = re.findall(r"(TWG?)-SHADOW-SUSPENDED after (\d+) abstract steps", l[-1])
        handed = re.findall(r"TW-SHADOW-HANDOVER after (\d+) abstract steps", l[-1])
        speculated = re.findall(r"TWD-SHADOW-SPECULATED (\d+) of (\d+) abstract steps", l[-1])
        l[-1] = re.sub(r" TWG?-SHADOW-SUSPENDED after \d+" + tail, "", l[-1])
        l[-1] = re.sub(r" TW-SHADOW-HANDOVER after \d+" + tail, "", l[-1])
        l[-1] = re.sub(r" TWD-SHADOW-SPECULATED \d+ of \d+" + tail, "", l[-1])
    for i in range(n):
        if c[i] != l[i]:
            div = {"line": i + 1, "op": o[i] if i < len(o) else "?", "impl": c[i], "model": l[i]}
            break
    if not ok and (div is None or div["line"] >= len(l)):
        # the model driver did not finish (time limit on a very long trace): its output ends in the middle of a line; what was
        # compared up to there agreed - inconclusive, not a divergence
        div = None
        res["driver_incomplete"] = True
    elif div is None and res["outcome"] != "crash" and len(c) != len(l):
        div = {"line": n + 1, "op": "<length>", "impl": "%d lines" % len(c), "model": "%d lines" % len(l)}
    res["div"] = div
    res["lines"] = n
    res["suspended"] = suspended
    res["handed"] = handed
    res["speculated"] = speculated
    res["sample"] = [x for x in c if x.split()[0] in ("rb", "fwd", "fdone", "antil", "finilp")][:3]
    res["finals"] = sorted(x.split(" seq=")[0] for x in c if x.startswith("finilp"))
    for f in (ops, cf, lf):
        try:
            os.remove(f)
        except OSError:
            pass
    return res


def is_f1(stats):
    """signature of the known shutdown deadlock F1: every thread is either spinning in the flush loop of
    gvt_msg_drain (stage 1, at VP_GVT_PHASE=10) or blocked in the barrier that follows it (stage 2),
    and at least one of each"""
    pts = stats.get("points", [])
    if not pts:
        return False
    a = [p for p in pts if p["stage"] == 1 and p["last"] == 10]
    b = [p for p in pts if p["stage"] == 2 and p["last"] in (1, 2, 3)]
    return len(a) + len(b) == len(pts) and a and b


class Agg:
    def __init__(self):
        self.runs = 0
        self.lines = 0
        self.tot = {}
        self.outcomes = {}
        self.divs = []
        self.crashes = []
        self.hang_other = []
        self.f1 = 0
        self.samples = []
        self.finals = {}

    def add(self, r):
        self.runs += 1
        self.outcomes[r["outcome"]] = self.outcomes.get(r["outcome"], 0) + 1
        if r["outcome"] == "crash":
            self.crashes.append(r)
            if r.get("div"):
                self.divs.append(r)
            return
        st = r["stats"]
        for k, v in st.items():
            if isinstance(v, int):
                self.tot[k] = self.tot.get(k, 0) + v
        self.lines += r.get("lines", 0)
        if r.get("div"):
            self.divs.append(r)
        if r["outcome"] == "hang":
            # no trace event for a long time: threads only spin
            if is_f1(st):
                self.f1 += 1
            else:
                self.hang_other.append(r)
        elif r["outcome"] == "nonterm":
            # keeps running although every predicate has held on a committed state for a long time (C08)
            self.hang_other.append(r)
        # "budget": step budget exhausted while still making progress - inconclusive, only counted in `outcomes`
        if len(self.samples) < 6 and r.get("sample"):
            self.samples.append({"cfg": r["cfg"], "events": r["sample"]})


def standard_verdicts(ctx, agg, name, oracle_keys=()):
    """turn an aggregate into obligations / violations"""
    ctx.oblige("correspondence:%s (re-execution of %d real runs, %d trace lines)" % (name, agg.runs, agg.lines),
               not agg.divs, json.dumps({"cfg": agg.divs[0]["cfg"], "div": agg.divs[0]["div"]}) if agg.divs else "")
    for r in agg.crashes[:3]:
        ctx.violation("runtime-crash", {"cfg": r["cfg"], "mode": r["mode"], "first_divergence": r.get("div"),
                                        "output": r["out"][-600:]}, True)
    for r in agg.hang_other[:3]:
        ctx.violation("hang", {"cfg": r["cfg"], "points": r["stats"].get("points")}, True)
    for k in oracle_keys:
        if agg.tot.get(k, 0):
            ctx.violation("oracle:" + k, {"count": agg.tot[k]}, True)
    if agg.f1:
        # the known shutdown deadlock; reported under C08, tolerated (and counted) elsewhere
        ctx.coverage["runs_ending_in_known_shutdown_hang_F1"] = agg.f1
    if agg.divs and not ctx.violations:
        search_witness(ctx, agg.divs)
    if agg.divs and not ctx.violations and not any(r.get("mode") == "serial" for r in agg.divs):
        # still nothing: a wider, cheap search judged by the implementation-side oracles only (no model involved): tiny thresholds
        # (predicates that hold speculatively and are undone), several LPs per thread, short batches, frequent GVT rounds
        rnd = random.Random(ctx.seed * 9176 + 5)
        extra = []
        for i in range(1500 if ctx.tier == "quick" else 8000):
            c = gen_configs(ctx, 1)[0]
            thr = rnd.choice([1, 2, 2, 3])
            c.update({"seed": rnd.randrange(1, 1 << 30), "mseed": rnd.randrange(1, 1 << 30), "threads": thr,
                      "lps": thr * rnd.choice([1, 2, 3]), "thr": rnd.choice([3, 8, 20, 60]), "spread": rnd.choice([0, 3, 10, 30]),
                      "burst": rnd.choice([5, 20, 60, 200]), "period": rnd.choice([0, 0, 10]), "fan": rnd.choice([3, 4]),
                      "batch": rnd.choice([0, 2, 4, 8]), "t0": rnd.choice([0, 1]), "types": rnd.choice([2, 3, 4]),
                      "ckpt": rnd.choice([1, 2, 3, 7, 0])})
            c.pop("skew", None)
            c.pop("tterm", None)
            extra.append(c)
        oracle_search(ctx, extra, ("s_rb_mismatch", "s_below_gvt", "s_double_free", "s_vote_false_pred", "s_vote_uncommitted",
                                   "s_gvt_decrease"), label="oracle_only_search")
    for r in agg.divs[:3]:
        # a divergence whose model line carries an explicit property failure marker is a witness
        d = r["div"]
        marks = ("MISMATCH", "BELOW-GVT", "double-free", "unexpected-free", "deq-not-queued")
        if any(m in d["model"] or m in d["impl"] for m in marks) or "seq=" in d["impl"]:
            ctx.violation("trace-witness", {"cfg": r["cfg"], "div": d}, True)
    ctx.coverage.update({
        "evaluations": agg.runs,
        "traces_validated_against_impl": agg.runs,
        "trace_lines_compared": agg.lines,
        "totals": agg.tot,
        "outcomes": agg.outcomes,
    })
    ctx.samples += agg.samples


def lean_part(ctx, module, theorems):
    ok, _ = ctx.lean_build([module])
    ctx.token_audit()
    if ok:
        ctx.axiom_audit(module, theorems)
        if ctx.tier == "thorough":
            ctx.leanchecker(module)
    return ok


def run_matrix(ctx, name, n_quick, n_thorough, oracle_keys=(), mode="par", jobs=12, **genkw):
    """build hrun from the working tree, run a seeded configuration matrix in parallel, aggregate"""
    import concurrent.futures
    if not build(ctx):
        return None
    n = n_quick if ctx.tier == "quick" else n_thorough
    cfgs = gen_configs(ctx, n, big=(ctx.tier != "quick"), **genkw)
    agg = Agg()
    with concurrent.futures.ThreadPoolExecutor(max_workers=jobs) as ex:
        for r in ex.map(lambda ic: run_one(ctx, mode, ic[1], "%s%d" % (mode, ic[0])), enumerate(cfgs)):
            agg.add(r)
    standard_verdicts(ctx, agg, name, oracle_keys)
    return agg


def run_serial(ctx, cfg, tag):
    """the real serial runtime on a GenModel instance vs. Model/Serial.lean (verbatim heap) with the observed timer decisions"""
    ops, cf = ctx.path("sops_%s" % tag), ctx.path("sc_%s" % tag)
    args = [ctx.path("hrun"), "serial", ops, cf] + ["%s=%s" % kv for kv in sorted(cfg.items())]
    rc, out = vlib.run(args, timeout=600)
    stats = None
    for l in out.splitlines():
        if l.startswith("{"):
            try:
                stats = json.loads(l)
            except ValueError:
                pass
    res = {"cfg": cfg, "rc": rc, "stats": stats or {"outcome": "crash"}, "out": out[-1500:], "mode": "serial"}
    res["outcome"] = res["stats"]["outcome"]
    lf = cf + ".lean"
    ctx.driver("serial2", ops, lf)
    c = [x.split(" fr=")[0] for x in open(cf, errors="replace").read().splitlines() if x.startswith("d ") or x.startswith("sfini")]
    l = [x for x in open(lf, errors="replace").read().splitlines() if x.startswith("d ") or x.startswith("sfini")]
    oc = [x for x in open(lf, errors="replace").read().splitlines() if x.startswith("outcome")]
    div = None
    for i in range(min(len(c), len(l))):
        if c[i] != l[i]:
            div = {"line": i + 1, "op": "dispatch #%d" % i, "impl": c[i], "model": l[i]}
            break
    if div is None and len(c) != len(l) and res["outcome"] != "crash":
        div = {"line": min(len(c), len(l)) + 1, "op": "<length>", "impl": "%d dispatches" % len(c), "model": "%d dispatches %s" % (len(l), oc)}
    res["div"] = div
    res["lines"] = min(len(c), len(l))
    # S oracle on the implementation's own dispatch stream: non-decreasing time stamps
    tqs = [int(x.split("tq=")[1].split()[0]) for x in c if x.startswith("d ")]
    res["unsorted"] = sum(1 for a, b in zip(tqs, tqs[1:]) if b < a)
    res["ties"] = sum(1 for a, b in zip(tqs, tqs[1:]) if b == a)
    # S oracle: a run without termination time stops only when every predicate holds (or nothing is left to process)
    res["premature"] = 0
    if not cfg.get("tterm") and res["outcome"] == "ok":
        fin = [x for x in c if x.startswith("sfini")]
        short = [x for x in fin if int(x.split("cnt=")[1].split()[0]) < int(x.split("thr=")[1].split()[0])]
        pending = stats.get("dispatch", 0) if stats else 0
        if short and len(short) < len(fin):
            # some LPs ended, others did not: legitimate only if the event queue ran dry, which GenModel ticks exclude
            res["premature"] = len(short)
    res["sample"] = c[5:8]
    for f in (ops, cf, lf):
        try:
            os.remove(f)
        except OSError:
            pass
    return res


def lib_matrix(ctx, rnd):
    """models that also call the floating-point numerical library (no Lean twin): implementation-side oracles only.
    Returns the number of configuration pairs compared."""
    import concurrent.futures
    pairs = 0
    # ---- second matrix: models that also call Normal/Poisson/Gamma/RandomRange/RandomRangeNonUniform (no Lean twin for
    # floating point): the same model+seed under several configurations must end in the same states, and every rollback
    # must reproduce the state digest recorded when that history position was first reached (RNG replay after rollback)
    lib_jobs, lib_groups = [], []
    for g in range(4 if ctx.tier == "quick" else 40):
        base = gen_configs(ctx, 1)[0]
        base.update({"mseed": rnd.randrange(1, 1 << 30), "pseed": rnd.randrange(1, 1 << 40), "lps": rnd.choice([2, 3, 4, 6]),
                     "rng": 1, "mem": rnd.choice([0, 1]), "lib": 1, "thr": rnd.choice([60, 120, 250])})
        vs = []
        for k in range(5):
            c = dict(base)
            c.update({"threads": rnd.choice([1, 2, 3, 4]), "ckpt": rnd.choice([1, 2, 3, 7, 0]), "period": rnd.choice([0, 10, 1000]),
                      "burst": rnd.choice([20, 200, 600]), "seed": rnd.randrange(1, 1 << 30)})
            vs.append(c)
            lib_jobs.append((g, k, c))
        lib_groups.append(vs)
    lib_agg = Agg()
    lib_finals = {}
    with concurrent.futures.ThreadPoolExecutor(max_workers=12) as ex:
        for g, k, r in ex.map(lambda j: (j[0], j[1], run_one(ctx, "par", j[2], "l%d_%d" % (j[0], j[1]), model=False)), lib_jobs):
            lib_agg.add(r)
            lib_finals.setdefault(g, []).append((k, r))
    if lib_agg.tot.get("s_rb_mismatch", 0):
        ctx.violation("rng-or-state-not-replayed-after-rollback", {"count": lib_agg.tot["s_rb_mismatch"],
                      "note": "state digest after a rollback differs from the digest recorded at that history position (models using the numerical library)"}, True)
    for r in lib_agg.crashes[:2]:
        ctx.violation("runtime-crash", {"cfg": r["cfg"], "output": r["out"][-500:]}, True)
    for g, lst in lib_finals.items():
        digs = {k: r["finals"] for k, r in lst if r["outcome"] == "ok" and r.get("finals")}
        ks = sorted(digs)
        for a in ks[1:]:
            pairs += 1
            if digs[a] != digs[ks[0]]:
                ctx.violation("config-dependence", {"cfg_a": lib_groups[g][ks[0]], "cfg_b": lib_groups[g][a],
                                                    "finals_a": digs[ks[0]], "finals_b": digs[a]}, True)
    ctx.coverage["library_rng_matrix"] = {"runs": lib_agg.runs, "rollbacks_checked": lib_agg.tot.get("s_rb_checked", 0),
                                          "outcomes": lib_agg.outcomes}
    return pairs


def run_seqjudge(ctx, cfg, tag):
    """One scheduled run judged ONLY by the sequential specification (independent of the LP-level re-execution model):
    committed stream of every LP and, for predicate-terminated runs, the final states, against the Lean sequential executor."""
    ops, cf = ctx.path("jo_%s" % tag), ctx.path("jc_%s" % tag)
    args = [ctx.path("hrun"), "dist", ops, cf] + ["%s=%s" % kv for kv in sorted(cfg.items())]
    rc, out = vlib.run(args, timeout=300)
    o_f, c_f = ops + ".0", cf + ".0"
    res = {"cfg": cfg, "rc": rc, "div": None, "oracle": {}}
    for l in out.splitlines():
        if "{" in l and l.strip().endswith("}"):
            try:
                st = json.loads(l[l.index("{"):])
                res["oracle"] = {k: st.get(k, 0) for k in ("s_rb_mismatch", "s_below_gvt", "s_vote_false_pred", "s_vote_uncommitted", "s_gvt_decrease")}
                res["outcome"] = st.get("outcome")
            except ValueError:
                pass
    if not (os.path.exists(o_f) and os.path.exists(c_f)):
        return res
    head = "model %d %d %d %d %d %d %d %d %d %d %d %d %d" % (cfg["mseed"], cfg["lps"], cfg["types"], cfg["fan"], cfg["thr"], cfg["spread"],
                                                         cfg["rng"], cfg["mem"], cfg["t0"], cfg["threads"], cfg["ckpt"], cfg.get("tterm", 0),
                                                         cfg.get("skew", 0))
    o = open(o_f, errors="replace").read().splitlines()
    c = open(c_f, errors="replace").read().splitlines()
    n = min(len(o), len(c))
    mo, mc = ops + ".m", cf + ".m"
    open(mo, "w").write("\n".join([head] + o[:n]) + "\n")
    lf = mc + ".lean"
    ctx.driver("seq", mo, lf)
    l = open(lf, errors="replace").read().splitlines()[1:]
    for i in range(min(n, len(l))):
        if c[i] != l[i]:
            res["div"] = {"line": i + 1, "op": o[i], "impl": c[i], "sequential": l[i]}
            break
    for f in (o_f, c_f, mo, lf):
        try:
            os.remove(f)
        except OSError:
            pass
    return res


def search_witness(ctx, divs, per_cfg=24, max_cfgs=3):
    """The correspondence broke: search the implementation for a concrete input on which the PROPERTY fails, starting from the
    diverging configurations (same model instance, fresh schedules), judged by the sequential specification and the
    implementation-side oracles only. Returns the number of witnesses recorded."""
    import concurrent.futures
    import random
    rnd = random.Random(ctx.seed + 99)
    jobs = []
    for k, r in enumerate(divs[:max_cfgs]):
        if r.get("mode") == "serial":
            continue
        for j in range(per_cfg):
            c = dict(r["cfg"])
            c.pop("ranks", None)
            c.update({"seed": rnd.randrange(1, 1 << 30), "burst": rnd.choice([0, 20, 60, 200, 600])})
            jobs.append(("w%d_%d" % (k, j), c))
    found = 0
    with concurrent.futures.ThreadPoolExecutor(max_workers=12) as ex:
        for res in ex.map(lambda j: run_seqjudge(ctx, j[1], j[0]), jobs):
            bad = {k: v for k, v in res["oracle"].items() if v}
            if res["div"] and found < 3:
                ctx.violation("outcome-differs-from-sequential-execution", {"cfg": res["cfg"], "first_difference": res["div"]}, True)
                found += 1
            elif bad and found < 3:
                ctx.violation("implementation-oracle", {"cfg": res["cfg"], "oracle": bad}, True)
                found += 1
    ctx.coverage["witness_search"] = {"runs": len(jobs), "witnesses": found}
    return found


# ---------------------------------------------------------------------------------------------------------------
# Adversarial-peer runs: the real core incl. the real distributed/mpi.c on top of a fake MPI library in which rank 1
# is played by a hostile but legal peer (harness/fakempi_impl.h). Deterministic (token scheduler + one PRNG), dense
# in the rare remote paths: anti-messages overtaking their event, several early anti-messages per LP, remote
# anti-messages for the oldest history entry, cancelled responses, new-colour messages right before a GVT report.

def build_peer(ctx):
    srcs = [os.path.join(vlib.HARNESS, "hrun.c")] + ctx.core_sources(mpi=True)
    return ctx.cc("hrun_peer", srcs, extra=["-I" + os.path.join(vlib.HARNESS, "fakempi"), "-Wl,--wrap=stats_take"], defs=["VERIF_FAKE_PEER"])


def peer_configs(ctx, n, salt=0):
    rnd = random.Random(ctx.seed * 6007 + 31 + salt)
    out = []
    for i in range(n):
        batch = rnd.choice([0, 2, 6, 6, 16])
        c = {
            "seed": rnd.randrange(1, 1 << 30), "mseed": rnd.randrange(1, 1 << 30),
            "lps": rnd.choice([2, 4, 5, 6, 8, 10]), "types": rnd.choice([2, 3, 4]), "fan": rnd.choice([2, 3, 4]),
            "thr": rnd.choice([60, 120, 200, 300]), "spread": rnd.choice([0, 10, 30]),
            "rng": rnd.choice([0, 1]), "mem": rnd.choice([0, 1, 1]), "t0": 0,
            "threads": rnd.choice([1, 2, 2, 3]), "ckpt": rnd.choice([1, 2, 3, 7, 0]),
            "period": rnd.choice([0, 0, 10, 1000]), "burst": rnd.choice([0, 5, 20, 60, 200]),
            "stay": rnd.choice([0, 2, 3]), "pseed": rnd.randrange(1, 1 << 40), "budget": 3000000,
            "batch": batch, "pev": rnd.choice([600, 1000, 1500]) if batch == 0 else rnd.choice([100, 250, 400]),
            "pcancel": rnd.choice([10, 25, 50]), "preflect": rnd.choice([0, 30, 70]), "plag": rnd.choice([0, 3, 10]),
            "pspread": rnd.choice([4, 16, 40]), "page": rnd.choice([10, 40, 200]), "pspan": rnd.choice([30, 400]),
            "pwin": rnd.choice([8, 24, 100]),
        }
        if i % 3 == 1:
            # the peer keeps this rank's new-colour messages in flight while a GVT round is open and runs far ahead itself: only this
            # rank's own accumulator protects those messages
            c.update({"phold": 1, "pwin": rnd.choice([100, 400]), "plag": rnd.choice([3, 10, 25])})
        if i % 7 == 3:
            c.update({"thr": 0, "spread": rnd.choice([2, 3, 6, 40])})  # predicates already true at LP_INIT for some LPs
        if i % 7 == 5:
            c["spread"] = rnd.choice([2000, 3000]) + rnd.choice([0, 10, 30])  # every 2nd/3rd LP done from the start
        if i % 5 == 4:
            # early-frozen LPs whose history is emptied again and again: the next remote event lands in slot 0
            c.update({"thr": 20, "spread": rnd.choice([0, 5]), "ckpt": rnd.choice([1, 2]), "period": 0, "batch": rnd.choice([2, 4]),
                      "pev": rnd.choice([300, 600]), "mem": 0, "rng": 0})
        out.append(c)
    return out


def peer_exactly_once(ops_lines, c_lines):
    """S oracle, independent of the Lean model: every event received from the peer and never cancelled by it that lies below
    the final GVT is committed exactly once at its LP; an event cancelled by the peer is never committed; nothing is committed
    twice. Returns a list of failure descriptions."""
    ev, cancelled, gvt, committed, fails = {}, set(), {}, {}, []
    for o, c in zip(ops_lines, c_lines):
        w = o.split()
        if not w:
            continue
        if w[0] == "rrecv":
            ev[int(w[2])] = (int(w[3]), int(w[4]), (int(w[7]) & ~3, int(w[8])))
        elif w[0] == "rrecva":
            cancelled.add((int(w[5]) & ~3, int(w[6])))
        elif w[0] == "gvt":
            gvt[int(w[1])] = int(w[2])
        elif w[0] == "ffree" and w[5] == "0":
            committed[int(w[3])] = committed.get(int(w[3]), 0) + 1
        elif w[0] == "fini" and w[5] == "0":
            o_ = int(w[3])
            if o_ in ev and ev[o_][1] < gvt.get(int(w[1]), 0):
                committed[o_] = committed.get(o_, 0) + 1
    fin = min(gvt.values()) if gvt else 0
    for o_, (dest, tq, mid) in ev.items():
        n = committed.get(o_, 0)
        if mid in cancelled and n:
            fails.append("cancelled remote event ord=%d lp=%d tq=%d id=%s was committed" % (o_, dest, tq, mid))
        elif mid not in cancelled and n > 1:
            fails.append("remote event ord=%d lp=%d tq=%d committed %d times" % (o_, dest, tq, n))
        elif mid not in cancelled and n == 0 and tq < fin:
            fails.append("remote event ord=%d lp=%d tq=%d below the final GVT %d was never committed (lost)" % (o_, dest, tq, fin))
    return fails


def run_peer(ctx, cfg, tag):
    ops, cf = ctx.path("pops_%s" % tag), ctx.path("pc_%s" % tag)
    args = [ctx.path("hrun_peer"), "rank", ops, cf] + ["%s=%s" % kv for kv in sorted(cfg.items())]
    rc, out = vlib.run(args, timeout=600, env={"ASAN_OPTIONS": "detect_leaks=0"})
    stats = None
    for l in out.splitlines():
        if "{" in l and l.rstrip().endswith("}"):
            try:
                stats = json.loads(l[l.index("{"):])
            except ValueError:
                pass
    res = {"cfg": cfg, "rc": rc, "stats": stats or {"outcome": "crash"}, "out": out[-1500:], "mode": "peer", "div": None, "lines": 0,
           "sample": [], "s_fails": []}
    res["outcome"] = res["stats"]["outcome"]
    o_f, c_f = ops + ".0", cf + ".0"
    if os.path.exists(o_f) and os.path.exists(c_f):
        lf = c_f + ".lean"
        ok = ctx.driver("par", o_f, lf)
        o = open(o_f, errors="replace").read().splitlines()
        c = open(c_f, errors="replace").read().splitlines()
        l = open(lf, errors="replace").read().splitlines()
        n = min(len(c), len(l), len(o))
        res["lines"] = n
        for i in range(n):
            if c[i] != l[i]:
                res["div"] = {"line": i + 1, "op": o[i][:200], "impl": c[i], "model": l[i]}
                break
        if not ok and (res["div"] is None or res["div"]["line"] >= len(l)):
            res["div"] = None  # the model driver ran into its time limit on a very long trace: inconclusive
        elif res["div"] is None and res["outcome"] == "ok" and len(c) != len(l):
            res["div"] = {"line": n + 1, "op": "<length>", "impl": "%d lines" % len(c), "model": "%d lines" % len(l)}
        if res["outcome"] == "ok":
            res["s_fails"] = peer_exactly_once(o, c)[:5]
        res["sample"] = [x for x in c if x.split()[0] in ("early", "ematch", "rb")][:3]
        for f in (o_f, c_f, lf):
            try:
                os.remove(f)
            except OSError:
                pass
    for f in (ops + ".g.0",):
        try:
            os.remove(f)
        except OSError:
            pass
    return res


PEER_ORACLES = ("s_rb_mismatch", "s_below_gvt", "s_gvt_decrease", "s_gvt_disagree", "s_double_free", "s_vote_false_pred", "s_vote_uncommitted",
                "s_remote_id_not_unique", "s_sent_count_wrong", "s_peer_below_gvt")


def peer_matrix(ctx, n_quick, n_thorough, salt=0, jobs=12, extra_oracles=()):
    """returns an Agg of adversarial-peer runs, obligations and violations registered"""
    import concurrent.futures
    ctx.trusted.append("adversarial-peer runs: rank 1 is played by harness/fakempi_impl.h behind a fake <mpi.h>; the real mpi.c, gvt.c, "
                       "process.c run unchanged; the peer is legal by construction (unique ids, one anti per event, GVT contribution a "
                       "lower bound of everything it sends/cancels later, exact colour accounting, eventual delivery) - a mistake in "
                       "that construction would show as a false alarm, not as a missed violation")
    if not build_peer(ctx):
        return None
    n = n_quick if ctx.tier == "quick" else n_thorough
    cfgs = peer_configs(ctx, n, salt)
    agg = Agg()
    sf = []
    with concurrent.futures.ThreadPoolExecutor(max_workers=jobs) as ex:
        for r in ex.map(lambda ic: run_peer(ctx, ic[1], "p%d" % ic[0]), enumerate(cfgs)):
            agg.add(r)
            if r["s_fails"]:
                sf.append(r)
    ctx.oblige("correspondence:peer (LP-level re-execution of %d adversarial-peer runs, %d trace lines: remote events, remote and early "
               "anti-messages, free-at-GVT, GVT values)" % (agg.runs, agg.lines), not agg.divs,
               json.dumps({"cfg": agg.divs[0]["cfg"], "div": agg.divs[0]["div"]}) if agg.divs else "")
    for r in sf[:3]:
        ctx.violation("remote-event-not-exactly-once", {"cfg": r["cfg"], "failures": r["s_fails"]}, True)
    for r in agg.crashes[:3]:
        ctx.violation("runtime-crash", {"cfg": r["cfg"], "mode": "peer", "first_divergence": r.get("div"), "output": r["out"][-600:]}, True)
    for k in PEER_ORACLES + tuple(extra_oracles):
        if agg.tot.get(k, 0):
            bad = [r["cfg"] for r in [] ]
            ctx.violation("oracle:" + k, {"count": agg.tot[k], "mode": "peer"}, True)
    for r in agg.hang_other[:3]:
        # a hang that is not the known F1 signature: in peer runs the flush loop of gvt_msg_drain does not poll MPI, which is
        # the multi-rank variant of F1 (stage 1 everywhere); anything else is reported
        pts = r["stats"].get("points", [])
        if pts and all(p["stage"] in (1, 2) for p in pts):
            agg.f1 += 1
        else:
            ctx.violation("hang", {"cfg": r["cfg"], "points": pts, "mode": "peer"}, True)
    t = agg.tot
    ctx.coverage["peer_mode"] = {"runs": agg.runs, "trace_lines_compared": agg.lines, "outcomes": agg.outcomes,
                                 "peer_events": t.get("peer_events", 0), "peer_antis": t.get("peer_antis", 0),
                                 "early_antis": t.get("early_antis", 0), "responses": t.get("peer_responses", 0),
                                 "antis_sent_to_peer": t.get("peer_got_antis", 0), "gvt_rounds": t.get("peer_rounds", 0),
                                 "rollbacks": t.get("rollbacks", 0), "fossil_collections": t.get("fossil", 0),
                                 "known_shutdown_hangs": agg.f1}
    return agg


def oracle_search(ctx, cfgs, keys, mode="par", jobs=12, label="oracle_search"):
    """After a broken correspondence: run further configurations of the implementation judged ONLY by the implementation-side
    property oracles `keys` (no model involved); records up to 3 witnesses. Returns the number found."""
    import concurrent.futures
    found = 0
    runs = 0
    with concurrent.futures.ThreadPoolExecutor(max_workers=jobs) as ex:
        for r in ex.map(lambda ic: run_one(ctx, mode, ic[1], "os%d" % ic[0], model=False), enumerate(cfgs)):
            runs += 1
            st = r.get("stats") or {}
            bad = {k: st.get(k, 0) for k in keys if st.get(k, 0)}
            if bad and found < 3:
                ctx.violation("implementation-oracle", {"cfg": r["cfg"], "oracle": bad}, True)
                found += 1
    ctx.coverage[label] = {"runs": runs, "witnesses": found}
    return found


def tw_matrix(ctx, n_quick, n_thorough, salt=0, jobs=12):
    """Refinement check against the abstract global Time Warp machines: small single-rank scheduled runs whose re-execution ALSO
    steps an abstract machine: every process_msg of the real run must be an enabled abstract action (exec / annihilate /
    antiRollback), the abstract history of the LP must equal the concrete one afterwards, and every GVT value told to a thread must
    be a lower bound of the abstract pending messages and anti-messages (the hypothesis of reachable_hist).
    * even configurations: strictly causal GenModel (V2s), content-level machine (Model/TimeWarp.lean; Props/C01Glue.lean), `tw=1`;
    * odd configurations: V2-ONLY GenModel mode (t0 bit 1: zero-delay forwards of identical content) and the INSTRUMENTED machine
      (Model/TimeWarpG.lean, ghost creation order; Props/C01GlueV2.lean), `tw=2`: actions are called with the tagged message (content +
      creation step), histories are compared as (content, creation step) pairs; every other one of them runs BOTH shadows (`tw=3`).
    The instrumented shadow steps TWD.step? (Model/TimeWarpD.lean: the same machine with the straggler rule of the CODE; Props/C01GlueD.lean;
    with no extra entry kept it IS TWG.step?): where the code speculates on a doomed entry (C01Refine.cmpOk_is_needed) it is called with
    the split point the code used. The content-level shadow (which cannot follow that step) always runs with this companion and hands
    the run over to it there. No run is suspended any more.
    Cost is quadratic in the history length, hence small runs."""
    import concurrent.futures
    if not build(ctx):
        return None
    rnd = random.Random(ctx.seed * 4447 + 3 + salt)
    n = n_quick if ctx.tier == "quick" else n_thorough
    cfgs = []
    for i in range(n):
        c = gen_configs(ctx, 1)[0]
        c.update({"seed": rnd.randrange(1, 1 << 30), "mseed": rnd.randrange(1, 1 << 30), "tw": 1,
                  "lps": rnd.choice([2, 3, 4, 5, 6]), "thr": rnd.choice([10, 25, 40, 80]), "spread": rnd.choice([0, 10, 30, 2010]),
                  "threads": rnd.choice([1, 2, 3, 4]), "ckpt": rnd.choice([1, 2, 3, 7, 0]), "period": rnd.choice([0, 0, 10, 1000]),
                  "batch": rnd.choice([0, 2, 4, 8]), "burst": rnd.choice([0, 5, 20, 60, 200]), "mem": rnd.choice([0, 0, 1]),
                  "t0": rnd.choice([0, 1]), "budget": 1500000})
        c.pop("tterm", None)
        c.pop("skew", None)
        if i % 2 == 1:
            c.update({"t0": c["t0"] | 2, "types": max(c["types"], 3), "tw": 3 if i % 4 == 3 else 2})
        cfgs.append(c)
    # pinned configurations (corpus/doomed_speculation_cfgs.json) whose run speculates on a doomed entry: the TWD shadow must follow them
    # through (one with the content-level shadow + hand-over, one with the instrumented shadow alone)
    try:
        pinned = json.load(open(os.path.join(vlib.VERIF, "corpus", "doomed_speculation_cfgs.json")))["configs"][:2]
    except (OSError, ValueError, KeyError):
        pinned = []
    for k, pc in enumerate(pinned):
        c = dict(pc["cfg"])
        c["tw"] = 1 if k == 0 else 2
        cfgs.append(c)
    agg = Agg()
    n_v2 = n_twg = 0
    susp = []
    spec = []
    n_handed = 0
    with concurrent.futures.ThreadPoolExecutor(max_workers=jobs) as ex:
        for r in ex.map(lambda ic: run_one(ctx, "par", ic[1], "tw%d" % ic[0]), enumerate(cfgs)):
            agg.add(r)
            n_v2 += 1 if r["cfg"]["t0"] & 2 else 0
            n_twg += 1 if r["cfg"]["tw"] & 2 else 0
            if r.get("suspended"):
                susp.append({"cfg": r["cfg"], "suspended": r["suspended"]})
            if r.get("speculated"):
                spec.append({"cfg": r["cfg"], "speculated": r["speculated"]})
            n_handed += 1 if r.get("handed") else 0
    ctx.oblige("refinement:abstract Time Warp machines shadow %d real runs (content-level machine / C01Glue on %d strictly causal "
               "configurations; INSTRUMENTED machine TWG / C01GlueV2, messages tagged with their creation step, on %d V2-only "
               "configurations with zero-delay forwards of identical content): every process_msg is an enabled abstract action, "
               "histories agree after every step, every adopted GVT is a lower bound of the abstract pending set (%d trace lines, %d "
               "forward steps, %d rollbacks, %d GVT values; %d runs speculated on a doomed entry (cmpOk_is_needed) and were followed through "
               "by the machine with the code's straggler rule TWD / C01GlueD, %d of them handed over by the content-level shadow; "
               "%d runs suspended)"
               % (agg.runs, agg.runs - n_v2, n_twg, agg.lines, agg.tot.get("fwd", 0), agg.tot.get("rollbacks", 0),
                  agg.tot.get("gvt", 0), len(spec), n_handed, len(susp)),
               not agg.divs, json.dumps({"cfg": agg.divs[0]["cfg"], "div": agg.divs[0]["div"]}) if agg.divs else "")
    for r in agg.crashes[:2]:
        ctx.violation("runtime-crash", {"cfg": r["cfg"], "output": r["out"][-500:]}, True)
    ctx.coverage["abstract_time_warp_shadow"] = {"runs": agg.runs, "trace_lines": agg.lines, "forward_steps": agg.tot.get("fwd", 0),
                                                 "rollbacks": agg.tot.get("rollbacks", 0), "anti_messages": agg.tot.get("antis", 0),
                                                 "gvt_values_checked": agg.tot.get("gvt", 0), "outcomes": agg.outcomes,
                                                 "v2_only_configurations": n_v2, "instrumented_machine_runs": n_twg,
                                                 "suspended_at_cmpOk_gap": susp[:5], "suspended_runs": len(susp),
                                                 "speculated_on_doomed_entry": spec[:5], "speculated_runs": len(spec),
                                                 "handed_over_runs": n_handed}
    return agg


def stateless_matrix(ctx, n_quick, n_thorough, salt=0, jobs=12):
    """STATELESS models (no SetState: the handler gets a NULL state; no draw at LP_INIT; every event draws from the library RNG and
    its outputs depend on the draw): the only rollbackable state of such an LP is its generator, which lives in rollbackable memory
    and is brought to the rollback point by the restore + coast forward. No Lean twin: judged by the implementation-side ledger
    (state digest = generator words recorded when a history position is first reached vs. after every rollback to it)."""
    import concurrent.futures
    if not build(ctx):
        return None
    rnd = random.Random(ctx.seed * 5501 + 9 + salt)
    n = n_quick if ctx.tier == "quick" else n_thorough
    cfgs = []
    for i in range(n):
        c = gen_configs(ctx, 1)[0]
        c.update({"seed": rnd.randrange(1, 1 << 30), "mseed": rnd.randrange(1, 1 << 30), "nostate": 1, "tterm": rnd.choice([100, 200, 400]),
                  "lps": rnd.choice([2, 3, 4, 6, 8]), "types": rnd.choice([2, 3, 4]), "threads": rnd.choice([2, 3, 4]),
                  "ckpt": rnd.choice([2, 3, 7, 0, 0]), "period": rnd.choice([0, 10, 1000]), "burst": rnd.choice([5, 20, 60, 200]),
                  "batch": rnd.choice([0, 4, 16]), "budget": 3000000})
        c.pop("skew", None)
        c["t0"] = 0
        cfgs.append(c)
    agg = Agg()
    with concurrent.futures.ThreadPoolExecutor(max_workers=jobs) as ex:
        for r in ex.map(lambda ic: run_one(ctx, "par", ic[1], "ns%d" % ic[0], model=False), enumerate(cfgs)):
            agg.add(r)
    bad = [r for r in [] ]
    if agg.tot.get("s_rb_mismatch", 0):
        ctx.violation("rng-or-state-not-replayed-after-rollback", {"count": agg.tot["s_rb_mismatch"], "model": "stateless (generator only)",
                      "note": "generator words after a rollback differ from those recorded when that history position was first reached"}, True)
    for r in agg.crashes[:2]:
        ctx.violation("runtime-crash", {"cfg": r["cfg"], "output": r["out"][-500:]}, True)
    for r in agg.hang_other[:2]:
        ctx.violation("hang", {"cfg": r["cfg"], "points": r["stats"].get("points")}, True)
    ctx.coverage["stateless_models"] = {"runs": agg.runs, "rollbacks_checked": agg.tot.get("s_rb_checked", 0), "forward_steps": agg.tot.get("fwd", 0),
                                        "outcomes": agg.outcomes}
    return agg


def msan_matrix(ctx, n_quick, n_thorough, salt=0, jobs=8):
    """MemorySanitizer (clang): the whole core + harness compiled with -fsanitize=memory from the working tree; serial and scheduled
    parallel GenModel runs; a `use-of-uninitialized-value` report is a violation with the configuration as replay (reads of message
    fields the allocator does not initialise - raw_flags, payload bytes beyond pl_size - decide the event order)."""
    import concurrent.futures
    import shutil
    cc = shutil.which("clang-14") or shutil.which("clang")
    if not cc:
        ctx.coverage["msan"] = "clang not available"
        return None
    srcs = [os.path.join(vlib.HARNESS, "hrun.c")] + ctx.core_sources(mpi=False)
    cmd = [cc, "-std=gnu11", "-O1", "-g", "-DNDEBUG", "-D" + vlib.GUARD, '-DROOTSIM_VERSION="verif"', "-I" + os.path.join(vlib.REPO, "src"),
           "-I" + vlib.HARNESS, "-w", "-fsanitize=memory", "-fno-omit-frame-pointer"] + srcs + \
          ["-Wl,--wrap=stats_take", "-o", ctx.path("hrun_msan"), "-lm", "-lpthread"]
    rc, o = vlib.run(cmd, timeout=600)
    ctx.oblige("harness-build:hrun_msan", rc == 0, o[-800:])
    if rc:
        return None
    rnd = random.Random(ctx.seed * 3001 + 17 + salt)
    n = n_quick if ctx.tier == "quick" else n_thorough
    jobs_l = []
    for i, c in enumerate(gen_configs(ctx, n)):
        c.update({"seed": rnd.randrange(1, 1 << 30), "mseed": rnd.randrange(1, 1 << 30), "thr": rnd.choice([20, 40, 80]),
                  "t0": rnd.choice([0, 1, 1])})
        c.pop("skew", None)
        jobs_l.append(("serial" if i % 2 == 0 else "par", c, i))

    def one(j):
        mode, c, i = j
        ops, cf = ctx.path("mo_%d" % i), ctx.path("mc_%d" % i)
        args = [ctx.path("hrun_msan"), mode, ops, cf] + ["%s=%s" % kv for kv in sorted(c.items())]
        rc, out = vlib.run(args, timeout=600)
        for f in (ops, cf):
            try:
                os.remove(f)
            except OSError:
                pass
        return mode, c, rc, out

    runs = reports = 0
    with concurrent.futures.ThreadPoolExecutor(max_workers=jobs) as ex:
        for mode, c, rc, out in ex.map(one, jobs_l):
            runs += 1
            if "MemorySanitizer" in out:
                reports += 1
                if reports <= 2:
                    lines = [l for l in out.splitlines() if "MemorySanitizer" in l or l.strip().startswith("#")][:6]
                    ctx.violation("use-of-uninitialized-value", {"mode": mode, "cfg": c, "report": lines}, True)
    ctx.coverage["msan"] = {"runs": runs, "reports": reports}
    return runs
