"""C01 - parallel (multi-thread) results equal the sequential execution."""
from props import runlib

THEOREMS = ["RootSim.C01.history_stays_sorted", "RootSim.C01.matchAnti_spec", "RootSim.C01.forward_records_outputs", "RootSim.C01.matchStraggler_spec", "RootSim.C01.lp_state_is_fold",
            "RootSim.C05LP.run_exact", "RootSim.C05LP.rollback_exact"]

THEOREMS_D = ['RootSim.PrefixUnique.prefix_unique', 'RootSim.PrefixUnique.prefix_unique_V2s', 'RootSim.PrefixUnique.history_unique', 'RootSim.PrefixUnique.exists_sequential_run', 'RootSim.PrefixUnique.v2_only_counterexample', 'RootSim.PrefixUnique.seq_state_exact']


def run(ctx):
    ctx.trusted += ["sequentially consistent execution under the token scheduler (one worker runs between two hook points)",
                    "GenModel twin (harness/genmodel.h = Model/GenModel.lean), tied by every dispatched content and state digest",
                    "composition step (E) of DESIGN 3/C01 (global invariant of the product system) is NOT a theorem: it is covered by "
                    "re-executing sampled real runs on the model and comparing the result with the Lean sequential executor"]
    ctx.assumptions += ["valid-model contract V1-V5 (DESIGN 2.8); GenModel instances satisfy V2-V4 on every invocation the runtime performs (proved: Props/GenModelContract.lean)",
                        "runs that end in the known shutdown deadlock F1 (C08) are compared up to the hang"]
    runlib.lean_part(ctx, "RootSim.Props.C01Sorted", THEOREMS)
    runlib.lean_part(ctx, "RootSim.Props.PrefixUnique", THEOREMS_D)
    # glue (E): every reachable state of the abstract global Time Warp machine satisfies Hist (Props/C01Glue.lean)
    runlib.lean_part(ctx, "RootSim.Props.C01Glue", ['RootSim.C01Glue.reachable_invariant','RootSim.C01Glue.reachable_hist','RootSim.C01Glue.tw_prefix_of_sequential','RootSim.C01Glue.tw_equals_sequential','RootSim.C01Glue.tw_quiescent_equals_sequential','RootSim.C01Glue.tw_quiescent_final','RootSim.C01Glue.tw_quiescent_is_sequential','RootSim.C01Glue.step_function_exact'])
    runlib.lean_part(ctx, "RootSim.Props.C01GlueV2", ['RootSim.C01GlueV2.tw_V2_counterexample','RootSim.C01GlueV2.tw_equals_sequential_V2','RootSim.C01GlueV2.tw_quiescent_final_V2','RootSim.C01GlueV2.reachable_hist_V2','RootSim.C01GlueV2.twg_refines_contentLevel'])
    # the same theorems for the machine with the straggler rule of the CODE (the ANTI bit of a doomed entry stops the backward scan:
    # Model/TimeWarpD.lean); Hist of the whole histories is refuted there, Hist/Progress hold for the untainted prefixes
    runlib.lean_part(ctx, "RootSim.Props.C01GlueD", ['RootSim.C01GlueD.twg_step_is_twd_step','RootSim.C01GlueD.reachable_invariant_D','RootSim.C01GlueD.below_bound_untainted','RootSim.C01GlueD.reachable_hist_D','RootSim.C01GlueD.reachable_progress_D','RootSim.C01GlueD.reachable_progress_D_literal','RootSim.C01GlueD.tw_equals_sequential_D','RootSim.C01GlueD.tw_quiescent_final_D','RootSim.C01GlueD.tw_schedule_independent_D','RootSim.C01GlueD.tw_committed_monotone_D','RootSim.C01GlueD.reachable_hist_D_literal_refuted','RootSim.C01GlueD.step_function_exact_D'])
    # the GenModel family (the model every full-run correspondence executes) satisfies the contracts these theorems assume - in the
    # relativised form (existing LP, model event or the LP's own LP_INIT; the literal V2s/V2 are refuted for the family), which is all
    # the theorems need (Proofs/ClampTransfer.lean); instances of the end-to-end theorems for the family (Props/GenModelContract.lean)
    runlib.lean_part(ctx, "RootSim.Props.GenModelContract", ['RootSim.GenModelContract.genmodel_V2s','RootSim.GenModelContract.genmodel_V2','RootSim.GenModelContract.genmodel_fwd_V2','RootSim.GenModelContract.genmodel_fwd_not_V2s','RootSim.GenModelContract.genmodel_not_V2','RootSim.GenModelContract.genmodel_not_V2s','RootSim.GenModelContract.genmodel_V2s_Statement_false','RootSim.GenModelContract.genmodel_unrelativised_counterexamples','RootSim.GenModelContract.relativised_iff_clamp','RootSim.GenModelContract.runs_are_clamped_runs','RootSim.GenModelContract.v2sOn_tw_equals_sequential','RootSim.GenModelContract.v2On_tw_equals_sequential_D','RootSim.GenModelContract.genmodel_tw_equals_sequential','RootSim.GenModelContract.genmodel_tw_quiescent_final','RootSim.GenModelContract.genmodel_fwd_tw_equals_sequential_D','RootSim.GenModelContract.genmodel_fwd_tw_quiescent_final_D'])
    # LP-local simulation theorem: every branch of the concrete LP step function (LPFull.step) is ONE action of the abstract machine
    # (or a stutter), with exact bag bookkeeping (Props/C01Refine.lean); the run-time twshadow check below is its instance on real traces
    runlib.lean_part(ctx, "RootSim.Props.C01Refine", ['RootSim.C01Refine.step_preserves_rinv','RootSim.C01Refine.plain_step_refines_exec','RootSim.C01Refine.anti_step_refines_antiRollback','RootSim.C01Refine.discard_steps_refine_annihilate','RootSim.C01Refine.lp_step_refines_tw','RootSim.C01Refine.lp_step_keeps_reachable','RootSim.C01Refine.checkpoint_refines_stutter','RootSim.C01Refine.fossil_refines_stutter','RootSim.C01Refine.cmpOk_is_needed','RootSim.Refine.cmpOk_of_content'])
    runlib.lean_part(ctx, "RootSim.Props.C01Term", ["RootSim.C01Term.tw_prefix_states_exact", "RootSim.C01Term.tw_first_true_point_exact", "RootSim.C01Term.tw_committed_predicate_is_sequential", "RootSim.C01Term.tw_quiescent_first_true_exact"])
    agg = runlib.run_matrix(ctx, "par re-execution + final LP states vs Lean sequential executor",
                            40, 500, oracle_keys=("s_rb_mismatch", "s_below_gvt", "s_double_free", "s_vote_uncommitted"),
                            threads=(1, 2, 3, 4, 6), ckpts=(1, 2, 3, 7, 0))
    if agg:
        ctx.coverage["distinct_nontrivial"] = agg.outcomes.get("ok", 0)
        ctx.coverage["rule"] = ("seeded GenModel instances (ties, zero-delay events, payload 0..200, dynamic memory across several arenas, "
                                "library RNG) x threads 1..6 (incl. more threads than LPs) x checkpoint interval {1,2,3,7,auto} x GVT period "
                                "x scheduler seed/burst; every trace line re-executed on the Lean LP model; non-trivial = runs that ended "
                                "by predicate termination, whose per-LP final state digest was compared with the Lean sequential executor")
    # refinement of the concrete kernel to the abstract global Time Warp machine of the glue theorems, checked on small runs
    runlib.tw_matrix(ctx, 12, 200, salt=1)
    # models that also call the floating-point numerical library (Normal, Poisson, Gamma, RandomRange ...; no Lean twin): the same
    # model+seed under several configurations must end in the same states, and every rollback must reproduce the recorded digest
    import random as _random
    runlib.lib_matrix(ctx, _random.Random(ctx.seed * 77 + 1))
