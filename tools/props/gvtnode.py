"""Node-level GVT counting: multi-rank runs (hrun rank mode) log, per rank, the sends/receives of remote messages with their colour and
the node-level steps of every GVT round; the per-rank logs are merged into one causal order (a message is delivered after it was sent;
a node's reduce-scatter completes after the last reporter of EVERY node deposited its buffer) and replayed on Model/GvtNode.lean."""
import glob
import json
import os
import random
import vlib
from props import runlib


def merge(gfiles):
    """returns (ops_lines, impl_lines) or None"""
    ranks = {}
    K = N = None
    for f in gfiles:
        ls = open(f, errors="replace").read().splitlines()
        if not ls or not ls[0].startswith("hdr"):
            continue
        _, k, n, nid = ls[0].split()
        K, N = int(k), int(n)
        ranks[int(nid)] = [l.split() for l in ls[1:] if l.strip()]
    if K is None or len(ranks) != K:
        return None
    ops, impl = ["hdr %d %d" % (K, N)], ["hdr ok"]
    ptr = {k: 0 for k in ranks}
    sent = set()
    last_reports = {k: 0 for k in ranks}
    colls = {k: 0 for k in ranks}
    dones = {k: 0 for k in ranks}            # `done` events emitted per node
    flips = {}                               # (node, rid) -> rounds started by that thread
    progress = True
    while progress:
        progress = False
        for k in sorted(ranks):
            ev = ranks[k]
            while ptr[k] < len(ev):
                e = ev[ptr[k]]
                kind = e[0]
                if kind == "recv" and (len(e) < 3 or e[2] not in sent):
                    break
                if kind == "coll" and min(last_reports.values()) < colls[k] + 1:
                    break
                # the min all-reduce of a round completes only after every node passed its reduce-scatter, and the next round is
                # started (control message from node 0) only after every node reported the end of the previous one
                if kind == "done" and min(colls.values()) < dones[k] // N + 1:
                    break
                if kind == "flip" and len(e) == 4 and e[3] == "1" and min(dones.values()) < N * flips.get((k, e[1]), 0):
                    break
                if kind == "send" and len(e) == 5:
                    sent.add(e[4])
                    ops.append("send %d %s %s %s %s" % (k, e[1], e[2], e[3], e[4]))
                    impl.append("send colour=%s" % e[3])
                elif kind == "recv":
                    ops.append("recv %d %s %s" % (k, e[1], e[2]))
                    impl.append("recv ok")
                elif kind == "flip" and len(e) == 4:
                    if e[3] == "1":
                        flips[(k, e[1])] = flips.get((k, e[1]), 0) + 1
                    ops.append("flip %d %s %s %s" % (k, e[1], e[2], e[3]))
                    impl.append("flip colour=%s" % e[2] if e[3] == "1" else "redux2 ok")
                elif kind == "report" and len(e) == 4:
                    if e[2] == "1":
                        last_reports[k] += 1
                    ops.append("report %d %s %s" % (k, e[1], e[2]))
                    impl.append("report last=%s" % e[2])
                elif kind == "coll" and len(e) == 4:
                    colls[k] += 1
                    ops.append("coll %d %s %s" % (k, e[1], e[2]))
                    impl.append("coll to=%s" % e[2])
                elif kind == "poll" and len(e) == 4:
                    ops.append("poll %d %s %s %s" % (k, e[1], e[2], e[3]))
                    impl.append("poll r=%s x=%s pass=%d" % (e[2], e[3], 1 if e[2] == "0" else 0))
                elif kind == "done":
                    dones[k] += 1
                    ops.append("done %d %s" % (k, e[1]))
                    impl.append("done")
                ptr[k] += 1
                progress = True
    return ops, impl


def run_one(ctx, cfg, ranks, tag):
    ops, cf = ctx.path("go_%s" % tag), ctx.path("gc_%s" % tag)
    args = ["mpiexec", "--allow-run-as-root", "--oversubscribe", "-n", str(ranks), ctx.path("hrun_mpi"), "rank", ops, cf] + \
           ["%s=%s" % kv for kv in sorted(cfg.items())]
    rc, out = vlib.run(args, timeout=180, env={"ASAN_OPTIONS": "detect_leaks=0"})
    res = {"cfg": dict(cfg, ranks=ranks), "rc": rc, "div": None, "lines": 0, "polls": 0, "rounds": 0}
    m = merge(sorted(glob.glob(ops + ".g.*")))
    for f in glob.glob(ops + ".*") + glob.glob(cf + ".*"):
        try:
            os.remove(f)
        except OSError:
            pass
    if not m:
        res["outcome"] = "no-trace"
        return res
    o, c = m
    mo, lf = ctx.path("gm_%s" % tag), ctx.path("gl_%s" % tag)
    open(mo, "w").write("\n".join(o) + "\n")
    ctx.driver("gvtnode", mo, lf)
    l = open(lf, errors="replace").read().splitlines()
    n = min(len(c), len(l))
    for i in range(n):
        if c[i] != l[i]:
            res["div"] = {"line": i + 1, "op": o[i], "impl": c[i], "model": l[i]}
            break
    res["lines"] = n
    res["polls"] = sum(1 for x in c if x.startswith("poll"))
    res["rounds"] = sum(1 for x in c if x.startswith("coll"))
    res["sample"] = [x for x in c if x.startswith("poll") or x.startswith("coll")][:3]
    res["outcome"] = "ok" if rc == 0 else "hang-or-crash"
    for f in (mo, lf):
        try:
            os.remove(f)
        except OSError:
            pass
    return res


def run(ctx):
    import concurrent.futures
    srcs = [os.path.join(vlib.HARNESS, "hrun.c")] + ctx.core_sources(mpi=True)
    if not ctx.cc("hrun_mpi", srcs, mpi=True, extra=["-Wl,--wrap=stats_take"]):
        return
    rnd = random.Random(ctx.seed * 911 + 3)
    jobs = []
    for i in range(6 if ctx.tier == "quick" else 100):
        c = runlib.gen_configs(ctx, 1)[0]
        c.update({"seed": rnd.randrange(1, 1 << 30), "mseed": rnd.randrange(1, 1 << 30), "lps": rnd.choice([4, 6, 8, 9]),
                  "threads": rnd.choice([1, 2, 3]), "thr": rnd.choice([60, 150, 300]), "burst": rnd.choice([0, 20, 100]),
                  "period": rnd.choice([0, 0, 10]), "fan": rnd.choice([3, 4])})
        c.pop("budget", None)
        ranks = rnd.choice([2, 3, 4])
        # the model has the same number N of threads on every node: every rank must host at least `threads` LPs
        c["lps"] = max(c["lps"], ranks * c["threads"] + rnd.choice([0, 1, 2]))
        jobs.append((i, c, ranks))
    tot = {"runs": 0, "lines": 0, "polls": 0, "rounds": 0}
    divs = []
    with concurrent.futures.ThreadPoolExecutor(max_workers=4) as ex:
        for r in ex.map(lambda j: run_one(ctx, j[1], j[2], "g%d" % j[0]), jobs):
            tot["runs"] += 1
            for k in ("lines", "polls", "rounds"):
                tot[k] += r[k]
            if r["div"]:
                divs.append(r)
            if len(ctx.samples) < 10 and r.get("sample"):
                ctx.samples.append({"cfg": r["cfg"], "node_level": r["sample"]})
    ctx.oblige("correspondence:gvtnode (node-level counting of %d multi-rank runs: %d actions, %d polls of total_msg_received, %d reduce-scatters)"
               % (tot["runs"], tot["lines"], tot["polls"], tot["rounds"]), not divs,
               json.dumps({"cfg": divs[0]["cfg"], "div": divs[0]["div"]}) if divs else "")
    for r in divs[:2]:
        # a thread that proceeds although the model still counts an old-colour message in flight is a safety witness
        d = r["div"]
        if "pass=1" in d["impl"] and "pass=0" in d["model"]:
            ctx.violation("node-gvt-proceeds-with-old-colour-message-outstanding", {"cfg": r["cfg"], "div": d}, True)
    ctx.coverage["node_level"] = tot
