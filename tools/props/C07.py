"""C07 - no premature termination (termination.c)."""
import json
import os
import vlib
from props import C08

THEOREMS = ["RootSim.C07.no_premature", "RootSim.C07.no_premature_partial", "RootSim.C07.f2_counterexample",
            "RootSim.C07.f2_witness", "RootSim.C07.f2_fixed", "RootSim.C07.f2_overcount_witness",
            "RootSim.C07.f8_witness", "RootSim.C07.returns_sound", "RootSim.C07.returns_sound_partial",
            "RootSim.C07.count_exact"]


def model_diff(ctx, mode, ops, cf):
    """run the driver in `mode` without recording an obligation; number of the first differing line or None"""
    lf = cf + "." + mode
    ok = ctx.driver(mode, ops, lf)
    c = open(cf, errors="replace").read().splitlines()
    l = open(lf, errors="replace").read().splitlines()
    if not ok or len(c) != len(l):
        return min(len(c), len(l)) + 1
    for i, (a, b) in enumerate(zip(c, l)):
        if a != b:
            return i + 1
    return None

from props import runlib


def run(ctx):
    ctx.trusted += [
        "C11 memory_order annotations not modelled (each atomic access is one sequentially consistent step); "
        "termination.c's thread-locals are exercised by virtual threads (the harness swaps lps_to_end/max_t)",
        "time stamps are non-negative finite doubles (order of bit patterns = numeric order); the three bool*double "
        "products of the pinned code are modelled as 'value or 0.0'"]
    ctx.assumptions += [
        "C04 (environment of the theorem): no rollback below the last GVT handed to the thread; GVT values do not decrease",
        "a rollback for a straggler/anti-message with time stamp s undoes only history entries with time stamp >= s "
        "(ties may go either way)",
        "V3: time stamps finite and >= 0; LPs are created before the first GVT; fewer than 2^32 threads, 2^64 LPs",
        "pinned tree only: no_premature_partial needs every time stamp handed to termination.c to be > 0 (finding F2)"]
    ok, _ = ctx.lean_build(["RootSim.Props.C07"])
    ctx.token_audit()
    if ok:
        ctx.axiom_audit("RootSim.Props.C07", THEOREMS)
    # protocol level: a predicate that holds on a committed state of the optimistic run holds on the state every sequential run
    # reaches after the same events (glue theorems)
    ok2, _ = ctx.lean_build(["RootSim.Props.C01Term"])
    if ok2:
        ctx.axiom_audit("RootSim.Props.C01Term", ["RootSim.C01Term.tw_committed_predicate_is_sequential",
                                                  "RootSim.C01Term.tw_first_true_point_exact"])
        if ctx.tier == "thorough":
            ctx.leanchecker("RootSim.Props.C07")
    if not ctx.cc("hc07", [os.path.join(vlib.HARNESS, "hc07.c")]):
        return
    n = 3000 if ctx.tier == "quick" else 150000
    ops, cf, orf = ctx.path("ops"), ctx.path("c"), ctx.path("oracle")
    rc, out = vlib.run([ctx.path("hc07"), str(ctx.seed), str(n), ops, cf, orf], timeout=3000)
    ctx.oblige("harness-run:hc07", rc == 0, out[-800:])
    if rc != 0:
        ctx.violation("harness-crash", {"output": out[-800:]}, True)
        return
    stats = json.loads(out.strip().splitlines()[-1])
    # which variant of the code is in the working tree? (pinned: sentinel 0.0; patched: sentinel -1.0)
    d_pinned = model_diff(ctx, "term", ops, cf)
    variant = "pinned"
    if d_pinned is not None and model_diff(ctx, "termfix", ops, cf) is None:
        variant = "patched(f2_termination_sentinel)"
    mode = "term" if variant == "pinned" else "termfix"
    ctx.coverage.update({
        "code_variant_matched": variant,
        "evaluations": stats["ops"], "distinct_nontrivial": stats["votes"] + stats["rollbacks"],
        "rule": "operations on the real termination.c (1-3 virtual threads x 1-3 LPs; predicates true at init / from the "
                "first event (also at time stamp 0) / flipping / threshold / never; rollbacks with ties split both ways); "
                "non-trivial = votes + rollbacks",
        "input_distribution": stats})
    ctx.kdiff(mode, "termination.c(termination_t,lps_to_end,max_t,votes,thr_to_end,nodes_to_end)[%s]" % variant, ops, cf)
    opl = open(ops).read().splitlines()
    ctx.samples += opl[1:6]
    seen = set()
    for l in open(orf).read().splitlines():
        f = dict(x.split("=", 1) for x in l.split()[1:])
        if f["cause"] in seen:
            continue
        seen.add(f["cause"])
        a, b = (int(x) for x in f["lines"].split("-"))
        ctx.violation("premature-vote" if l.startswith("PREMATURE") else "premature-end", {"cause": f["cause"], "thread": f["th"], "lp": f["lp"], "gvt": f["g"],
                                         "ends_run": f["ends_run"], "replay_ops": opl[a - 1:b]}, True)

    # the same defect on a FULL run of the real runtime (whole core under the deterministic scheduler of hc08):
    # 1 thread, 2 LPs, LP0's predicate first true at an event with time stamp 0, LP1's predicate needs 3000 events
    if C08.build_hc08(ctx):
        _, _, oracle8, stats8 = C08.run_scenarios(ctx, [(ctx.seed, "f2", 1, 2, 0)])
        ctx.coverage["full_run_f2_scenario"] = [{k: s[k] for k in ("argv", "result", "extractions")} for s in stats8]
        for l, st in oracle8:
            if l.startswith("C07"):
                f = dict(x.split("=", 1) for x in l.split()[1:])
                ctx.violation(f["kind"], {"cause": f["cause"], "lp": f["lp"], "events_of_lp1": f["events"],
                                          "replay_argv": st["argv"]}, True)

    # the CALL SITES of the termination module in process.c (after every forward execution, after every straggler / local
    # anti-message / remote anti-message rollback) and every vote: full runs under the scheduler re-executed on the model, which
    # predicts each termination_on_msg_process / termination_on_lp_rollback / vote event and its lps_to_end value; models with small
    # thresholds so that LPs satisfy their predicate speculatively and are rolled back afterwards
    import random
    import concurrent.futures
    if runlib.build(ctx):
        rnd = random.Random(ctx.seed * 13 + 1)
        cfgs = []
        for i in range(20 if ctx.tier == "quick" else 500):
            c = runlib.gen_configs(ctx, 1)[0]
            c.update({"seed": rnd.randrange(1, 1 << 30), "mseed": rnd.randrange(1, 1 << 30), "lps": rnd.choice([2, 3, 4, 6]),
                      "thr": rnd.choice([5, 10, 20, 40]), "spread": rnd.choice([0, 5, 30]), "threads": rnd.choice([1, 2, 3, 4]),
                      "burst": rnd.choice([20, 60, 200, 600]), "period": rnd.choice([0, 10]), "fan": rnd.choice([3, 4]), "mem": 0,
                      "t0": rnd.choice([0, 1])})
            cfgs.append(c)
        agg = runlib.Agg()
        with concurrent.futures.ThreadPoolExecutor(max_workers=12) as ex:
            for r in ex.map(lambda ic: runlib.run_one(ctx, "par", ic[1], "t%d" % ic[0]), enumerate(cfgs)):
                agg.add(r)
        runlib.standard_verdicts(ctx, agg, "termination bookkeeping and votes of full runs (call sites in process.c included)",
                                 ("s_vote_false_pred", "s_vote_uncommitted"))
        ctx.coverage["full_run_votes"] = agg.tot.get("votes", 0)
        if ctx.broken and not ctx.violations:
            # the tie broke and no run above violated the property itself: look for a premature vote on the implementation with
            # configurations biased towards several LPs per thread, tiny thresholds (predicates that hold speculatively and are
            # undone again), frequent GVT rounds; judged by the ledger oracle only
            extra = []
            for i in range(2000 if ctx.tier == "quick" else 12000):
                c = runlib.gen_configs(ctx, 1)[0]
                thr = rnd.choice([1, 1, 2])
                c.update({"seed": rnd.randrange(1, 1 << 30), "mseed": rnd.randrange(1, 1 << 30), "threads": thr,
                          "lps": thr * rnd.choice([2, 3, 4]), "thr": rnd.choice([3, 5, 8, 12, 20]), "spread": rnd.choice([0, 3, 10, 30]),
                          "burst": rnd.choice([5, 20, 60, 200]), "period": rnd.choice([0, 0, 10]), "fan": rnd.choice([3, 4]), "mem": 0,
                          "batch": rnd.choice([0, 2, 4, 8]), "t0": rnd.choice([0, 1]), "types": rnd.choice([2, 3, 4])})
                extra.append(c)
            runlib.oracle_search(ctx, extra, ("s_vote_false_pred", "s_vote_uncommitted"), label="premature_vote_search")
