"""C04 - GVT is a monotone, safe lower bound (thread level of gvt.c; single node)."""
import json
import os
import vlib
from props import C08

THEOREMS = ["RootSim.C04.counters", "RootSim.C04.guardB_all_left_A", "RootSim.C04.guardC_all_left_B",
            "RootSim.C04.guardD_all_wrote", "RootSim.C04.guardA_prev_round_over", "RootSim.C04.rounds_reusable",
            "RootSim.C04.cut_constant", "RootSim.C04.cut_safe", "RootSim.C04.read_value", "RootSim.C04.reported_safe",
            "RootSim.C04.no_extract_below", "RootSim.C04.no_emit_below", "RootSim.C04.same_value", "RootSim.C04.monotone",
            "RootSim.C04.phase_machine_agrees"]


def run(ctx):
    ctx.trusted += [
        "C11 memory_order annotations not modelled: sequentially consistent interleaving of the individual atomic accesses",
        "the per-thread queue is modelled by its abstraction `pending` (that msg_queue_time_peek sees everything inserted "
        "before is property C15); message steps and phase steps interleave arbitrarily (over-approximation), except that a "
        "round is started only between two messages (gvt_phase_run is never called from inside process_msg)",
        "node level: the message-counting core (colour flip, per-destination sent counts, reduce-scatter, receive polling) is "
        "modelled in Model/GvtNode.lean (theorems C04.Node.*) and tied by replaying the merged per-rank action logs of real "
        "multi-rank runs; the composition 'thread-level cut + counting + min all-reduce => no queued / processed / in-flight "
        "message below the reported value, now and for the rest of the round' is a theorem (C04.Global.gvt_safe, gvt_stable, "
        "gvt_monotone) about the abstract node-granularity model Model/GvtGlobal.lean, whose step guards ARE the conclusions of "
        "the two lower layers (pass <= C04.Node.old_colour_drained, report value <= C04.read_value/cut_safe, join between two "
        "events, emitted time stamps >= the event being processed, exact MPI MIN); that abstract model is not replayed against "
        "the C code itself: the same statement is additionally monitored on multi-rank and adversarial-peer runs (every remote "
        "message dequeued after a GVT value was adopted is compared with it)",
        "the deterministic scheduler of harness/hc08.c"]
    ctx.assumptions += [
        "V2 + rollback rules: everything a thread inserts while processing / rolling back for a message with time stamp c "
        "has a time stamp >= c (emit's precondition)"]
    ok, _ = ctx.lean_build(["RootSim.Props.C04"])
    ctx.token_audit()
    if ok:
        ctx.axiom_audit("RootSim.Props.C04", THEOREMS)
    # node level: the message-counting core (colour flip, per-destination sent counts, reduce-scatter, receive polling)
    ok2, _ = ctx.lean_build(["RootSim.Props.C04Node"])
    if ok2:
        ctx.axiom_audit("RootSim.Props.C04Node", ["RootSim.C04.Node.counting_received", "RootSim.C04.Node.counting_sent",
                                                  "RootSim.C04.Node.no_premature_pass", "RootSim.C04.Node.old_colour_drained",
                                                  "RootSim.C04.Node.counters_reset", "RootSim.C04.Node.passed_zero"])
        if ctx.tier == "thorough":
            ctx.leanchecker("RootSim.Props.C04")
    # global level: thread-level cut + node-level counting + min all-reduce (abstract model, guards imported from the two layers)
    ok3, _ = ctx.lean_build(["RootSim.Props.C04Global"])
    if ok3:
        ctx.axiom_audit("RootSim.Props.C04Global", ["RootSim.C04.Global." + n for n in (
            "gvt_safe", "gvt_stable", "gvt_stable_run", "no_extract_below", "gvt_monotone", "round_end_is_round_start",
            "gvt_eq_G", "needs_counting", "needs_accumulator_across_flip", "needs_join_between_events")])
    if not C08.build_hc08(ctx):
        return
    n = 10 if ctx.tier == "quick" else 300
    # longer runs than for C08 (more GVT rounds per run): 400 events per LP before the predicate holds
    scs = [(ctx.seed * 100000 + 500 + j, "stop" if j % 7 == 6 else "pred", 1 + j % 4, 4 + 2 * (j % 3), j % 3, 400)
           for j in range(n)]
    ops, cf, oracle, stats = C08.run_scenarios(ctx, scs)
    mode = C08.match_variant(ctx, ops, cf)
    ctx.kdiff(mode or "shutdown00", "gvt_thread_phase_run/gvt_node_phase_run phases and counters c_a c_b gvt_nodes [%s]"
              % C08.MODES.get(mode, "no model variant"), ops, cf)
    ctx.coverage.update({
        "schedules_explored": len(stats),
        "evaluations": sum(s["model_actions"] for s in stats),
        "distinct_nontrivial": sum(s["gvt_values"] for s in stats),
        "monitor": {"gvt_values_thread0": sum(s["gvt_values"] for s in stats),
                    "extractions": sum(s["extractions"] for s in stats), "sends": sum(s["sends"] for s in stats),
                    "anti_messages": sum(s["antis"] for s in stats),
                    "queue_peek_checks(phase A accumulator / phase C slot vs shadow queue)": sum(s["peek_checks"] for s in stats)},
        "rule": "lock-step replay of phases/counters with the real gvt.c; S monitor on full runs: every GVT value told to a "
                "thread is <= every later extraction / local send / anti-message time stamp, non-decreasing per thread, equal "
                "across threads per round; non-trivial = GVT values delivered",
        "input_distribution": [{k: s[k] for k in ("argv", "result", "gvt_values", "extractions", "antis")} for s in stats]})
    ctx.samples += open(ops).read().splitlines()[1:6]
    seen = set()
    for l, st in oracle:
        if not l.startswith("C04"):
            continue
        f = dict(x.split("=", 1) for x in l.split()[1:])
        if f["kind"] in seen:
            continue
        seen.add(f["kind"])
        ctx.violation("gvt-" + f["kind"], dict(f, replay_argv=st["argv"]), True)
    # node level on real multi-rank runs: the counting core replayed on Model/GvtNode.lean
    from props import gvtnode
    gvtnode.run(ctx)
    # adversarial peer: remote events and anti-messages sent in the new colour right before the peer reports its minimum, delivered
    # arbitrarily late; oracles: nothing dequeued below an adopted GVT, GVT monotone per thread, equal across threads per round
    from props import runlib
    pagg = runlib.peer_matrix(ctx, 30, 300, salt=4)
    if pagg:
        ctx.coverage["node_level_adversarial_peer"] = ctx.coverage.pop("peer_mode")
