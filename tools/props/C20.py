"""C20 - the statistics file: layout, record counts, GVT column, exact accounting.

The record-count clause depends on the variant of the flush loop of gvt_msg_drain (finding F6 / its repair). The
harness observes the variant of the working tree (replay of the kernel-checked F6 witness schedule on the real
threads: equal record counts => repaired) and tells the driver (`variant <0|1>`, first ops line), so that the loop
model compared in lock-step is the one that follows the code. Pinned tree: a record-count mismatch with the F6
signature is the known finding; repaired tree: a record-count mismatch of any signature is a violation
(Lean: RootSim.C20.same_record_count_fixed)."""
import importlib.util
import json
import os
import re
import struct
import subprocess
import vlib

THEOREMS = ["RootSim.C20.roundtrip", "RootSim.C20.roundtrip_option", "RootSim.C20.decode_sound",
            "RootSim.C20.decode_injective", "RootSim.C20.encode_length",
            "RootSim.C20.records_exact", "RootSim.C20.record_counts", "RootSim.C20.record_exact_of_fits",
            "RootSim.C20.undone_le_forward", "RootSim.C20.file_undone_le_forward",
            "RootSim.C20.gvt_column", "RootSim.C20.gvt_column_nondecreasing",
            "RootSim.C20.node_count_eq_thread0", "RootSim.C20.node_untouched_by_others",
            "RootSim.C20.records_fit", "RootSim.C20.file_wf", "RootSim.C20.file_roundtrip",
            "RootSim.C20.same_record_count_counterexample_stop",
            "RootSim.C20.same_record_count_counterexample_vote", "RootSim.C20.not_same_record_count",
            "RootSim.C20.records_plus_dropped", "RootSim.C20.same_record_count_fixed",
            "RootSim.C20.same_record_count_fixed_hook", "RootSim.C20.same_record_count_fixed_statement"]


DRIVER_BIN = [vlib.DRIVER]


def driver_lines(lines):
    """run a few protocol lines through `driver stats`"""
    p = subprocess.run([DRIVER_BIN[0], "stats"], input=("\n".join(lines) + "\n").encode(), stdout=subprocess.PIPE,
                       timeout=600)
    return p.stdout.decode().splitlines()


def parse_render(line):
    """the canonical rendering -> python structure"""
    t = line.split()
    assert t[0] == "S"
    be, s_cnt = int(t[1]), int(t[2])
    i = 3
    names = [bytes.fromhex(x) if x != "-" else b"" for x in t[i:i + s_cnt]]
    i += s_cnt
    assert t[i] == "N"
    n_cnt = int(t[i + 1])
    i += 2
    nodes = []
    for _ in range(n_cnt):
        assert t[i] == "G"
        glob = [int(x) for x in t[i + 1:i + 10]]
        i += 10
        assert t[i] == "R"
        n = int(t[i + 1])
        i += 2
        recs = [(int(t[i + 2 * k], 16), int(t[i + 2 * k + 1])) for k in range(n)]
        i += 2 * n
        threads = []
        for _ in range(glob[0]):
            assert t[i] == "T"
            m = int(t[i + 1])
            i += 2
            threads.append([tuple(int(x) for x in t[i + k * s_cnt:i + (k + 1) * s_cnt]) for k in range(m)])
            i += m * s_cnt
        nodes.append((glob, recs, threads))
    assert i == len(t)
    return be, names, nodes


def parser_view(rs):
    """what the shipped parser exposes, in the same shape (after its truncation to the shortest series)"""
    nodes = []
    for glob, node_stats, threads_stats in rs.all_stats:
        recs = [(struct.unpack("<Q", struct.pack("<d", g))[0], m) for (g, m) in node_stats]
        nodes.append((list(glob), recs, [[tuple(r) for r in th] for th in threads_stats]))
    return nodes


def truncate(nodes):
    m = min([len(n[1]) for n in nodes] + [len(th) for n in nodes for th in n[2]])
    return [(g, r[:m], [th[:m] for th in ths]) for (g, r, ths) in nodes]


def run(ctx):
    ctx.trusted += ["OS file I/O (tmpfile, fwrite, fread) and the C library; the trace hooks of ROOTSIM_VERIF "
                    "(VK_FORWARD, VK_UNPROCESS, VK_ROLLBACK, VK_SILENT, VK_CKPT, VK_ANTI_*, VK_FOSSIL_*, VK_GVT) "
                    "report what process.c did",
                    "the loop/GVT-round model (Model/StatsLoop.lean) is tied to parallel.c/gvt.c/termination.c only by "
                    "schedule lock-step replays (sampling)"]
    ctx.assumptions += ["single node (no_mpi build); the multi-node part of the layout (stats_files_receive) is covered "
                        "by the codec theorems only, not by runs",
                        "fewer than 2^64 events of any kind between two GVTs (record_exact_of_fits, file_undone_le_forward)",
                        "GVT values handed to stats_on_gvt are non-decreasing (C04) and non-negative finite doubles",
                        "same_record_count: neither assumed nor trusted - refuted for the pinned flush loop (finding F6), "
                        "proved for the repaired one (same_record_count_fixed) for executions that return (not the F1 "
                        "deadlock); which of the two the tree has is observed by the harness"]
    ok, _ = ctx.lean_build(["RootSim.Props.C20"])
    DRIVER_BIN[0] = getattr(ctx, "driver_bin", vlib.DRIVER)
    ctx.token_audit()
    if ok:
        ctx.axiom_audit("RootSim.Props.C20", THEOREMS)
        if ctx.tier == "thorough":
            ctx.leanchecker("RootSim.Props.C20")
    srcs = [os.path.join(vlib.HARNESS, "hc20.c")] + ctx.core_sources(exclude=("log/stats.c",))
    # fwrite(NULL, 0, ..) of an empty temporary file is reported by UBSan (finding F11): keep going to see the file
    if not ctx.cc("hc20", srcs, extra=["-fsanitize-recover=nonnull-attribute"]):
        return
    if not ok:
        return
    thorough = ctx.tier == "thorough"
    out = ctx.path("out")
    os.makedirs(out)

    # ---- schedules for the loop model: the proved counter-example + random ones the model says terminate
    cand = ctx.path("cand")
    rc, o = vlib.run([ctx.path("hc20"), "gen", str(ctx.seed), str(400 if thorough else 60), cand], timeout=60)
    ctx.oblige("harness-run:hc20-gen", rc == 0, o[-300:])
    demos = driver_lines(["f6demo", "f6demo3"])
    # which flush loop does the tree have? (the harness replays the F6 witness on the real threads)
    probe_script = ctx.path("probe_script")
    open(probe_script, "w").write(demos[0] + "\n")
    rc, o = vlib.run([ctx.path("hc20"), "probe", probe_script, ctx.path("probe")], timeout=150)
    try:
        fix6 = json.loads([l for l in o.strip().splitlines() if l.startswith("{")][-1])["fix6"]
    except (IndexError, ValueError, KeyError):
        fix6 = -1
    ctx.oblige("variant-probe(F6 witness schedule replayed on the real threads)", rc == 0 and fix6 in (0, 1), o[-300:])
    if fix6 not in (0, 1):
        ctx.violation("harness-crash", {"what": "variant probe", "output": o[-400:]}, True)
        return
    cands = demos + open(cand).read().splitlines()
    verdicts = driver_lines(["variant %d" % fix6] + cands)[1:]
    script = ctx.path("script")
    kept = [c for c, v in zip(cands, verdicts) if v.startswith("done")]
    open(script, "w").write("\n".join(kept) + "\n")
    predicted_unequal = sum(1 for c, v in zip(cands, verdicts) if v.startswith("done") and len(set(v.split()[1:])) > 1)

    rc, o = vlib.run([ctx.path("hc20"), str(ctx.seed), "1" if thorough else "0", out, script],
                     timeout=3000 if thorough else 170)
    ctx.oblige("harness-run:hc20", rc == 0, o[-800:])
    if rc != 0:
        ctx.violation("harness-crash", {"output": o[-800:]}, True)
        return
    # sanitizer reports of the implementation (non-fatal ones are printed on stderr)
    san = sorted(set(m.group(1) + ":" + m.group(2) for m in
                     re.finditer(r"src/([\w/\.]+):(\d+):\d+: runtime error: null pointer passed as argument", o)))
    other_san = [l for l in o.splitlines() if "runtime error" in l and "null pointer passed as argument" not in l]
    for s in san:
        ctx.violation("sanitizer", {"site": s, "check": "nonnull-attribute"}, True)
    for l in other_san[:3]:
        ctx.violation("sanitizer", {"site": l, "check": "other"}, True)
    stats = json.loads([l for l in o.strip().splitlines() if l.startswith("{")][-1])
    ctx.oblige("variant-probe-stable", stats.get("fix6") == fix6, "probe=%s run=%s" % (fix6, stats.get("fix6")))
    if fix6:
        # the repaired flush loop must have been exercised: at least the two witness schedules adopt a round there
        ctx.oblige("repaired-flush-loop-exercised", stats.get("flush_loop_records", 0) >= 3,
                   "flush_loop_records=%s" % stats.get("flush_loop_records"))
    ops, cf, orf = os.path.join(out, "ops"), os.path.join(out, "c"), os.path.join(out, "oracle")
    # free-running multi-thread runs may hang at shutdown (finding F1, not C20's business): they are retried and,
    # if they keep hanging, dropped (counted in input_distribution.gave_up). Scripted runs are deterministic:
    # the model says they terminate, so a hang there is a divergence.
    ctx.oblige("scripted-runs-all-completed", stats["scripted_hung"] == 0,
               "scripted_hung=%d of %d" % (stats["scripted_hung"], stats["scripted_runs"]))
    div = ctx.kdiff("stats", "layout+decode+encode+acct+f6(schedule lock-step)", ops, cf)
    c_lines = open(cf, errors="replace").read().splitlines()
    l_lines = open(cf + ".lean", errors="replace").read().splitlines()
    o_lines = open(ops, errors="replace").read().splitlines()
    kinds = {}
    for l in o_lines:
        k = l.split(" ", 1)[0]
        kinds[k] = kinds.get(k, 0) + 1
    n_bad = sum(1 for l in c_lines if l.startswith("bad"))

    # ---- the shipped parser against the Lean decoder (and, through the Lean encoder, on big-endian files)
    spec = importlib.util.spec_from_file_location("rootsim_stats", os.path.join(vlib.REPO, "src/log/parse/rootsim_stats.py"))
    rsmod = importlib.util.module_from_spec(spec)
    spec.loader.exec_module(rsmod)
    n_parser = 0
    parser_fail = None
    be_jobs = []
    for l in open(os.path.join(out, "runs")).read().splitlines():
        run_id, binp, line_no = l.split()[0], l.split()[1], int(l.split()[2])
        if line_no - 1 >= len(l_lines) or not l_lines[line_no - 1].startswith("S "):
            continue
        be, names, nodes = parse_render(l_lines[line_no - 1])
        try:
            rs = rsmod.RSStats(binp)
            got = (rs.big_endian, [n.encode() for n in rs.metrics], parser_view(rs), list(rs.threads_count))
            want = (bool(be), names, truncate(nodes), [n[0][0] for n in nodes])
            if got != want and parser_fail is None:
                parser_fail = {"run": run_id, "file": binp, "parser": repr(got)[:300], "lean": repr(want)[:300]}
            if rs.nodes_stats["lps"] != [n[0][1] for n in nodes] and parser_fail is None:
                parser_fail = {"run": run_id, "file": binp, "field": "lps"}
            g = [struct.unpack("<Q", struct.pack("<d", x))[0] for x in rs.gvts]
            if g != [r[0] for r in truncate(nodes)[0][1]] and parser_fail is None:
                parser_fail = {"run": run_id, "file": binp, "field": "gvts"}
        except Exception as ex:  # the parser rejects a file the model accepts
            if parser_fail is None:
                parser_fail = {"run": run_id, "file": binp, "exception": repr(ex)[:300]}
        n_parser += 1
        if len(be_jobs) < (40 if thorough else 12):
            be_jobs.append((run_id, l_lines[line_no - 1], names, nodes))
    # big-endian files exist only through the model's encoder: the shipped parser must read them back
    be_hex = driver_lines(["encode S 1" + r[1][3:] for r in be_jobs])
    n_be = 0
    for (run_id, _, names, nodes), hx in zip(be_jobs, be_hex):
        p = ctx.path("be_%s.bin" % run_id)
        open(p, "wb").write(bytes.fromhex(hx) if hx != "-" else b"")
        try:
            rs = rsmod.RSStats(p)
            got = (rs.big_endian, [n.encode() for n in rs.metrics], parser_view(rs))
            want = (True, names, truncate(nodes))
            if got != want and parser_fail is None:
                parser_fail = {"run": run_id, "file": "big-endian re-encoding", "parser": repr(got)[:300], "lean": repr(want)[:300]}
        except Exception as ex:
            if parser_fail is None:
                parser_fail = {"run": run_id, "file": "big-endian re-encoding", "exception": repr(ex)[:300]}
        n_be += 1
    ctx.oblige("correspondence:shipped-parser-vs-lean-decode", parser_fail is None, json.dumps(parser_fail) if parser_fail else "")
    ctx.coverage.setdefault("correspondence", {})["rootsim_stats.py"] = {
        "files_compared": n_parser, "big_endian_files_compared": n_be, "diverged": parser_fail is not None}
    if parser_fail:
        ctx.violation("parser-divergence", parser_fail, True)

    ctx.coverage.update({
        "evaluations": len(o_lines), "distinct_nontrivial": stats["thread_records"],
        "rule": "K lines: 1 layout (sizeof/offsetof of the real structs vs the model constants) + per real run "
                "decode/encode of the produced file, 9 damaged variants (accept/reject + reason), one acct line per "
                "thread (traced steps through the Lean machine vs file records + real leftover accumulator), one f6 "
                "line per scripted run (record counts of every thread under a yield-point schedule); non-trivial = "
                "per-thread per-GVT records compared counter by counter with the trace tallies",
        "op_kinds": kinds, "rejected_decodes": n_bad,
        "scripted_candidates": len(cands), "scripted_replayed": len(kept),
        "scripted_with_unequal_counts_predicted": predicted_unequal,
        "model_variant_compared": {"flush_loop": "repaired (records the value)" if fix6 else "pinned (drops the value, F6)"},
        "input_distribution": stats})
    ctx.samples += [l[:200] for l in o_lines if l.startswith(("variant", "acct", "f6"))][:7]

    # ---- S oracle
    seen = set()
    for l in open(orf, errors="replace").read().splitlines():
        kind = l.split()[0]
        kv = dict(x.split("=", 1) for x in l.split()[1:] if "=" in x)
        if kind == "RECCOUNT":
            # signature of the known finding F6: every thread's records are exactly its stats_on_gvt calls, the node's records are
            # thread 0's, and the threads merely took part in different numbers of rounds (the flush loop dropped a round's value).
            # Anything else (node differs from thread 0, a thread's records differ from its calls) is a different violation.
            # On a tree whose flush loop records the value (observed variant fix6) no mismatch is excused: the model proves equal
            # counts there (same_record_count_fixed), so any mismatch gets a signature that matches no known finding.
            try:
                tcounts = [int(kv["t%d" % i]) for i in range(int(kv["threads"]))]
                traced = [int(x) for x in kv.get("traced_gvts", "").split(",") if x]
                f6 = int(kv["node"]) == tcounts[0] and traced == tcounts and max(tcounts) - min(tcounts) <= 1
            except (KeyError, ValueError, IndexError):
                f6 = False
            signature = "threads-took-part-in-different-numbers-of-rounds" if f6 else "records-do-not-match-rounds"
            if fix6:
                signature = "mismatch-on-repaired-flush-loop:" + signature
            sig = ("RECCOUNT", kv.get("mode"), signature)
            if sig in seen:
                continue
            seen.add(sig)
            ctx.violation("record-count-mismatch", {"mode": kv.get("mode"), "signature": signature, "input": l}, True)
        else:
            if (kind,) in seen:
                continue
            seen.add((kind,))
            ctx.violation("stats-oracle", {"what": kind, "input": l}, True)
    if div and not any(v["kind"] not in ("record-count-mismatch", "sanitizer") for v in ctx.violations):
        pass  # correspondence broke but the oracle found nothing: reported as broken obligation by finish()
    # ---- accounting on full GenModel runs (hrun wraps stats_take at link time): the counters the runtime books per thread must
    # equal the events that happened on that thread (rollbacks, undone events, silent re-executions, checkpoints, anti-messages),
    # on single-rank scheduled runs and on two-rank runs with the adversarial peer (remote and early anti-messages)
    from props import runlib
    keep = dict(ctx.coverage)
    aagg = runlib.run_matrix(ctx, "counters booked by stats_take vs events of the trace (scheduled full runs)", 16, 300,
                             oracle_keys=("s_stats_mismatch",), threads=(1, 2, 3, 4))
    pagg = runlib.peer_matrix(ctx, 16, 300, salt=20, extra_oracles=("s_stats_mismatch",))
    extra_cov = {"full_run_accounting": {"runs": (aagg.runs if aagg else 0), "rollbacks": (aagg.tot.get("rollbacks", 0) if aagg else 0),
                                         "silent": (aagg.tot.get("silent", 0) if aagg else 0)},
                 "two_rank_accounting(adversarial peer)": ctx.coverage.get("peer_mode")}
    ctx.coverage.clear()
    ctx.coverage.update(keep)
    ctx.coverage.update(extra_cov)
