"""C05 - rollback restores the exact LP state (allocator part: checkpoint take / restore)."""
from . import alloc_common as ac

MODULE = "RootSim.Props.C05"
THEOREMS = ["RootSim.C05.Alloc.ckpt_size_exact",
            "RootSim.C05.Alloc.full_ckpt_size_invariant",
            "RootSim.C05.Alloc.restore_exact",
            "RootSim.C05.Alloc.restore_exact_all_histories",
            "RootSim.C05.Alloc.restore_then_take_size",
            "RootSim.C05.Alloc.restore_take",
            "RootSim.C05.Alloc.sameAsSnapshot_of_restored"]


def run(ctx):
    ctx.trusted += ac.TRUSTED
    ctx.assumptions += ac.ASSUMPTIONS
    ac.lean_side(ctx, MODULE, THEOREMS)
    ac.run_all(ctx, "c05", "exh", lambda s: s["ops"]["restore"],
               "API calls on the real allocator with frequent checkpoints and restores to targets at / between / "
               "beyond logged refs, repeated restores, restore directly followed by a checkpoint, arenas created "
               "after the restored checkpoint; after every restore the S oracle compares the live set, every live "
               "byte, the allocation trees, full_ckpt_size and the remaining log with the harness' snapshot of that "
               "checkpoint; non-trivial = restores")
