"""C05 - rollback restores the exact LP state (checkpoint restore + coast forward)."""
from props import runlib
from props import alloc_C05

THEOREMS = ["RootSim.C05LP.rollback_exact", "RootSim.C05LP.run_exact", "RootSim.C05LP.silent_no_sends",
            "RootSim.C05LP.rollback_after_fossil_exact", "RootSim.LP.forward_inv", "RootSim.LP.checkpoint_inv",
            "RootSim.LP.fossil_inv"]


def run(ctx):
    # allocator level (work package ALLOC): model of buddy.c/multi.c/ckpt.c, API-level correspondence
    alloc_C05.run(ctx)
    alloc_cov = dict(ctx.coverage)
    # LP level: model of process.c/fossil.c, full-run re-execution
    ctx.trusted += ["sequentially consistent execution under the token scheduler (one worker runs between two hook points)",
                    "LP-level model: a checkpoint is the state itself; byte-exactness of the allocator's checkpoint/restore is the allocator-level part"]
    ctx.assumptions += ["V1: handlers are deterministic functions of (LP, state, event) touching only rollbackable memory and the library RNG"]
    runlib.lean_part(ctx, "RootSim.Props.C05LP", THEOREMS)
    agg = runlib.run_matrix(ctx, "par re-execution (rollback index, restored checkpoint, coast-forward entries, state digest after every rollback)",
                            36, 300, oracle_keys=("s_rb_mismatch",), threads=(1, 2, 3, 4), ckpts=(1, 2, 3, 7, 0))
    import random
    runlib.lib_matrix(ctx, random.Random(ctx.seed * 17 + 3))
    if agg:
        ctx.coverage["distinct_nontrivial"] = agg.tot.get("s_rb_checked", 0)
        ctx.coverage["rule"] = ("seeded GenModel instances x thread counts x checkpoint intervals x GVT periods x schedules; "
                                "non-trivial = rollbacks whose restored state digest was checked against the digest recorded when "
                                "that history position was first reached (S oracle) and against the Lean re-execution (K)")
    ctx.coverage["allocator_level"] = {k: v for k, v in alloc_cov.items() if k in ("evaluations", "distinct_nontrivial", "rule", "input_distribution", "correspondence")}
    # LPs without a state pointer whose only rollbackable state is the library generator (first draw in a speculative event)
    runlib.stateless_matrix(ctx, 16, 400, salt=5)
