"""C02 - distributed (multi-node MPI) results equal the sequential execution."""
import concurrent.futures
import glob
import json
import os
import random
import vlib
from props import runlib

THEOREMS = ["RootSim.C01.history_stays_sorted", "RootSim.C01.forward_records_outputs", "RootSim.C01.matchStraggler_spec", "RootSim.C01.lp_state_is_fold",
            "RootSim.C05LP.run_exact"]


def run_dist(ctx, cfg, ranks, tag):
    ops, cf = ctx.path("opsd_%s" % tag), ctx.path("cd_%s" % tag)
    args = ["mpiexec", "--allow-run-as-root", "--oversubscribe", "-n", str(ranks), ctx.path("hrun_mpi"), "dist", ops, cf] + \
           ["%s=%s" % kv for kv in sorted(cfg.items())]
    rc, out = vlib.run(args, timeout=120, env={"ASAN_OPTIONS": "detect_leaks=0", "OMPI_MCA_rmaps_base_oversubscribe": "1"})
    stats = []
    for l in out.splitlines():
        if l.startswith("RANK") and "{" in l:
            try:
                stats.append(json.loads(l[l.index("{"):]))
            except ValueError:
                pass
    res = {"cfg": dict(cfg, ranks=ranks), "rc": rc, "out": out[-1200:], "stats": stats}
    if rc == 124:
        res["outcome"] = "hang"
    elif rc != 0 or len(stats) != ranks:
        res["outcome"] = "hang" if any(s["outcome"] == "hang" for s in stats) else "crash"
    else:
        res["outcome"] = "ok"
    # merge: model line, all init lines of all ranks, then the rest rank by rank
    head = "model %d %d %d %d %d %d %d %d %d %d %d %d" % (cfg["mseed"], cfg["lps"], cfg["types"], cfg["fan"], cfg["thr"],
                                                       cfg["spread"], cfg["rng"], cfg["mem"], cfg["t0"], cfg["threads"],
                                                       cfg["ckpt"], cfg.get("tterm", 0))
    o_init, c_init, o_rest, c_rest = [], [], [], []
    for r in range(ranks):
        try:
            o = open("%s.%d" % (ops, r), errors="replace").read().splitlines()
            c = open("%s.%d" % (cf, r), errors="replace").read().splitlines()
        except OSError:
            continue
        n = min(len(o), len(c))
        for i in range(n):
            if o[i].startswith("init "):
                o_init.append(o[i]); c_init.append(c[i])
            else:
                o_rest.append(o[i]); c_rest.append(c[i])
    mo, mc = ctx.path("mo_%s" % tag), ctx.path("mc_%s" % tag)
    open(mo, "w").write("\n".join([head] + o_init + o_rest) + "\n")
    open(mc, "w").write("\n".join(["model ok"] + c_init + c_rest) + "\n")
    lf = mc + ".lean"
    ctx.driver("seq", mo, lf)
    c = open(mc).read().splitlines()
    l = open(lf, errors="replace").read().splitlines()
    o = open(mo).read().splitlines()
    div = None
    for i in range(min(len(c), len(l))):
        if c[i] != l[i]:
            div = {"line": i + 1, "op": o[i], "impl": c[i], "model": l[i]}
            break
    res["div"] = div
    if div:
        # keep the merged trace of a diverging run next to the replay files (input to the model + implementation answers)
        import shutil
        d = os.path.join(vlib.REPLAYS, "C02")
        os.makedirs(d, exist_ok=True)
        shutil.copy(mo, os.path.join(d, "trace_%s_%d.ops" % (tag, cfg["seed"])))
        shutil.copy(mc, os.path.join(d, "trace_%s_%d.impl" % (tag, cfg["seed"])))
    res["lines"] = min(len(c), len(l))
    res["commits"] = sum(1 for x in c if x.startswith("commit"))
    res["sample"] = [x for x in c if x.startswith("commit")][:2]
    for f in glob.glob(ops + ".*") + glob.glob(cf + ".*") + [mo, mc, lf]:
        try:
            os.remove(f)
        except OSError:
            pass
    return res

THEOREMS_D = ['RootSim.PrefixUnique.prefix_unique', 'RootSim.PrefixUnique.history_unique']


def run_rank(ctx, cfg, ranks, tag):
    """full-vocabulary trace of every rank re-executed on the LP model (remote sends, remote anti-messages incl. early ones,
    free-at-GVT lists); contents of messages arriving from other ranks are inputs"""
    ops, cf = ctx.path("opsr_%s" % tag), ctx.path("cr_%s" % tag)
    args = ["mpiexec", "--allow-run-as-root", "--oversubscribe", "-n", str(ranks), ctx.path("hrun_mpi"), "rank", ops, cf] + \
           ["%s=%s" % kv for kv in sorted(cfg.items())]
    rc, out = vlib.run(args, timeout=180, env={"ASAN_OPTIONS": "detect_leaks=0"})
    stats = []
    for l in out.splitlines():
        if l.startswith("RANK") and "{" in l:
            try:
                stats.append(json.loads(l[l.index("{"):]))
            except ValueError:
                pass
    res = {"cfg": dict(cfg, ranks=ranks), "rc": rc, "out": out[-1200:], "stats": stats, "div": None, "lines": 0}
    if rc == 124 or any(st["outcome"] == "hang" for st in stats):
        res["outcome"] = "hang"
    elif rc != 0 or len(stats) != ranks:
        res["outcome"] = "crash"
    else:
        res["outcome"] = "ok"
    for r in range(ranks):
        o_f, c_f = "%s.%d" % (ops, r), "%s.%d" % (cf, r)
        if not (os.path.exists(o_f) and os.path.exists(c_f)):
            continue
        lf = c_f + ".lean"
        ctx.driver("par", o_f, lf)
        o = open(o_f, errors="replace").read().splitlines()
        c = open(c_f, errors="replace").read().splitlines()
        l = open(lf, errors="replace").read().splitlines()
        n = min(len(c), len(l), len(o))
        res["lines"] += n
        if res["div"] is None:
            for i in range(n):
                if c[i] != l[i]:
                    res["div"] = {"rank": r, "line": i + 1, "op": o[i][:200], "impl": c[i], "model": l[i]}
                    break
        for f in (o_f, c_f, lf):
            try:
                os.remove(f)
            except OSError:
                pass
    return res


def run(ctx):
    ctx.trusted += ["MPI library (OpenMPI, ranks on one host), real message timing between ranks is not controlled: within a rank the token "
                    "scheduler serialises the worker threads, across ranks the interleaving is whatever the OS/MPI produce",
                    "the judge is the Lean sequential executor of the same GenModel instance (Model/GenModel.lean, Driver seqRun)",
                    "rank mode: every rank's full trace is re-executed on the LP model including remote sends, remote anti-messages (matched by id "
                    "word + m_seq), early anti-messages and the free-at-GVT list; the CONTENT of a message arriving from another rank is an input "
                    "of that rank's re-execution (that what is sent is what arrives is MPI's business)"]
    ctx.assumptions += ["valid-model contract V1-V5", "runs that hang at shutdown (known finding F1, multi-rank variant) are compared up to the hang"]
    runlib.lean_part(ctx, "RootSim.Props.C01Sorted", THEOREMS)
    runlib.lean_part(ctx, "RootSim.Props.PrefixUnique", THEOREMS_D)
    # glue (E): every reachable state of the abstract global Time Warp machine satisfies Hist (Props/C01Glue.lean)
    runlib.lean_part(ctx, "RootSim.Props.C01Glue", ['RootSim.C01Glue.reachable_hist','RootSim.C01Glue.tw_equals_sequential','RootSim.C01Glue.tw_schedule_independent'])
    # ---- wire level: size-based demultiplexing (layout measured from the real headers)
    runlib.lean_part(ctx, "RootSim.Props.C02Wire", ["RootSim.C02.Wire.control_classified", "RootSim.C02.Wire.anti_classified",
                                                    "RootSim.C02.Wire.event_classified", "RootSim.C02.Wire.sizes_distinct"])
    if ctx.cc("hwire", [os.path.join(vlib.HARNESS, "hwire.c")], sanitize=False):
        wo, wc, wr = ctx.path("wo"), ctx.path("wc"), ctx.path("wr")
        rcw, outw = vlib.run([ctx.path("hwire"), wo, wc, wr])
        ctx.oblige("harness-run:hwire", rcw == 0, outw[-300:])
        if rcw == 0:
            ctx.kdiff("wire", "wire(layout ok, classification of control/anti/event sizes for payloads 0..4096)", wo, wc)
            for l in open(wr).read().splitlines()[:3]:
                ctx.violation("wire-misclassified", {"input": l}, True)
            ctx.coverage["wire_layout"] = json.loads(outw.strip().splitlines()[-1])
    srcs = [os.path.join(vlib.HARNESS, "hrun.c")] + ctx.core_sources(mpi=True)
    if not ctx.cc("hrun_mpi", srcs, mpi=True, extra=["-Wl,--wrap=stats_take"]):
        return
    rnd = random.Random(ctx.seed * 101 + 7)
    n = 10 if ctx.tier == "quick" else 60
    jobs = []
    for i in range(n):
        c = runlib.gen_configs(ctx, 1)[0]
        ranks = rnd.choice([2, 2, 3, 4])
        c.update({"seed": rnd.randrange(1, 1 << 30), "mseed": rnd.randrange(1, 1 << 30), "lps": rnd.choice([4, 6, 8, 9]),
                  "threads": rnd.choice([1, 2, 3]), "thr": rnd.choice([40, 80, 150]), "burst": rnd.choice([0, 20, 100]),
                  "ckpt": rnd.choice([1, 2, 3, 7, 0]), "period": rnd.choice([0, 10, 1000])})
        c.pop("budget", None)
        if c["lps"] < ranks:
            c["lps"] = ranks + 1
        jobs.append((i, c, ranks))
    agg = runlib.Agg()
    commits = 0
    hangs = 0
    with concurrent.futures.ThreadPoolExecutor(max_workers=4) as ex:
        for r in ex.map(lambda j: run_dist(ctx, j[1], j[2], "d%d" % j[0]), jobs):
            agg.runs += 1
            agg.outcomes[r["outcome"]] = agg.outcomes.get(r["outcome"], 0) + 1
            agg.lines += r["lines"]
            commits += r["commits"]
            for st in r["stats"]:
                for k, v in st.items():
                    if isinstance(v, int):
                        agg.tot[k] = agg.tot.get(k, 0) + v
            if r["div"]:
                agg.divs.append(r)
            if r["outcome"] == "crash":
                agg.crashes.append(dict(r, mode="dist"))
            if r["outcome"] == "hang":
                hangs += 1
            if len(agg.samples) < 5 and r["sample"]:
                agg.samples.append({"cfg": r["cfg"], "events": r["sample"]})
    # ---- rank mode: LP-level re-execution of every rank, remote paths included
    rjobs = []
    for i in range(6 if ctx.tier == "quick" else 40):
        c = runlib.gen_configs(ctx, 1)[0]
        ranks = rnd.choice([2, 2, 3])
        c.update({"seed": rnd.randrange(1, 1 << 30), "mseed": rnd.randrange(1, 1 << 30), "lps": rnd.choice([4, 6, 8]),
                  "threads": rnd.choice([1, 2, 2]), "thr": rnd.choice([40, 80, 150]), "burst": rnd.choice([0, 20, 100]),
                  "ckpt": rnd.choice([1, 2, 3, 7]), "period": rnd.choice([0, 10, 1000])})
        c.pop("budget", None)
        if i % 3 == 2:
            # some LPs satisfy their predicate very early and stay frozen (they still receive, process and have cancelled remote
            # events while their history is repeatedly emptied by fossil collection), checkpoint after every event, back-to-back GVT
            c.update({"thr": 20, "spread": rnd.choice([1500, 3000]), "ckpt": 1, "period": 0, "types": 2, "mem": 0, "rng": 0,
                      "fan": rnd.choice([3, 4]), "burst": rnd.choice([20, 60])})
        rjobs.append((i, c, ranks))
    ragg = {"runs": 0, "lines": 0, "outcomes": {}, "tot": {}}
    rdivs = []
    with concurrent.futures.ThreadPoolExecutor(max_workers=4) as ex:
        for r in ex.map(lambda j: run_rank(ctx, j[1], j[2], "r%d" % j[0]), rjobs):
            ragg["runs"] += 1
            ragg["lines"] += r["lines"]
            ragg["outcomes"][r["outcome"]] = ragg["outcomes"].get(r["outcome"], 0) + 1
            for st in r["stats"]:
                for k, v in st.items():
                    if isinstance(v, int):
                        ragg["tot"][k] = ragg["tot"].get(k, 0) + v
            if r["div"]:
                rdivs.append(r)
            if r["outcome"] == "crash":
                ctx.violation("runtime-crash", {"cfg": r["cfg"], "output": r["out"][-600:]}, True)
    ctx.oblige("correspondence:rank (LP-level re-execution of every rank of %d multi-rank runs, %d trace lines; remote sends, remote and "
               "early anti-messages, free-at-GVT)" % (ragg["runs"], ragg["lines"]), not rdivs,
               json.dumps({"cfg": rdivs[0]["cfg"], "div": rdivs[0]["div"]}) if rdivs else "")
    for k in ("s_rb_mismatch", "s_below_gvt", "s_gvt_decrease", "s_double_free", "s_vote_false_pred", "s_vote_uncommitted"):
        if ragg["tot"].get(k, 0):
            ctx.violation("oracle:" + k, {"count": ragg["tot"][k], "mode": "rank"}, True)
    ctx.coverage["rank_mode"] = {"runs": ragg["runs"], "trace_lines_compared": ragg["lines"], "outcomes": ragg["outcomes"],
                                 "remote_antis": ragg["tot"].get("antis_remote", 0), "early_antis": ragg["tot"].get("early_antis", 0)}
    # ---- adversarial peer: deterministic, dense in the rare remote paths (see runlib.peer_matrix)
    pagg = runlib.peer_matrix(ctx, 60, 500, salt=2)
    if pagg and pagg.divs and not ctx.violations:
        for r in pagg.divs[:2]:
            d = r["div"]
            if any(m in d["model"] or m in d["impl"] for m in ("MISMATCH", "BELOW-GVT", "double-free", "unexpected-free", "deq-not-queued")):
                ctx.violation("trace-witness", {"cfg": r["cfg"], "div": d, "mode": "peer"}, True)
    ctx.oblige("correspondence:dist (committed stream + final states of %d multi-rank runs vs the Lean sequential executor, %d lines)"
               % (agg.runs, agg.lines), not agg.divs,
               json.dumps({"cfg": agg.divs[0]["cfg"], "div": agg.divs[0]["div"]}) if agg.divs else "")
    for r in agg.divs[:3]:
        ctx.violation("committed-outcome-differs-from-sequential", {"cfg": r["cfg"], "div": r["div"]}, True)
    for r in agg.crashes[:3]:
        ctx.violation("runtime-crash", {"cfg": r["cfg"], "output": r["out"][-600:]}, True)
    for k in ("s_rb_mismatch", "s_below_gvt", "s_gvt_decrease"):
        if agg.tot.get(k, 0):
            ctx.violation("oracle:" + k, {"count": agg.tot[k]}, True)
    if hangs:
        ctx.coverage["runs_ending_in_shutdown_hang(known finding F1, reported under C08)"] = hangs
    ctx.coverage.update({"evaluations": agg.runs, "traces_validated_against_impl": agg.runs, "distinct_nontrivial": commits,
                         "rule": "seeded GenModel instances on 2-4 MPI ranks x 1-3 threads, seed-driven schedules inside each rank; "
                                 "non-trivial = committed processed messages whose content was compared with the sequential per-LP sequence",
                         "totals": agg.tot, "outcomes": agg.outcomes, "trace_lines_compared": agg.lines})
    ctx.samples += agg.samples
