"""C11 - memory safety and absence of undefined behaviour for every valid model.

Lean cannot reason about the C abstract machine; C11 is decided as a list of model-level DEFINEDNESS
obligations (each a theorem: the side condition of an operation holds in every reachable state of a valid run)
plus sanitizer-instrumented execution of every harness (sampling, labelled as such). Partial by construction."""
import concurrent.futures
import os
import vlib
from props import runlib

# definedness obligations proved so far (theorem -> which unchecked C access it covers)
OBLIGATIONS = {
    "RootSim.Props.C05LP": {
        "RootSim.C05LP.rollback_exact": "model_allocator_checkpoint_restore: the backward scan `while(logs[i].ref_i > ref_i) i--` finds a log (no index underflow) whenever a checkpoint not after the target exists",
        "RootSim.C05LP.run_exact": "... and that precondition is an invariant of every history of forward/checkpoint/rollback/fossil steps",
        "RootSim.C05LP.rollback_after_fossil_exact": "after fossil collection logs[0].ref_i = 0, so every later restore/fossil scan terminates inside the array",
    },
    "RootSim.Props.C01Sorted": {
        "RootSim.C01.matchStraggler_spec": "match_straggler_msg returns an index <= count-1 and never reads below index 0",
        "RootSim.C01.history_stays_sorted": "array_peek(p_msgs) in the straggler test is a processed message (the history ends with a past entry), so reading its dest_t/flags is reading a live message",
    },
    "RootSim.Props.C15Heap": {
        "RootSim.C15.Heap.extract_isSome_iff": "heap_extract is defined exactly on non-empty heaps (the callers test heap_count first)",
        "RootSim.C15.Heap.extract_perm": "heap_extract/insert neither lose nor duplicate entries (no dangling or doubly-owned message pointer in the queue)",
    },
}


def run(ctx):
    ctx.trusted += ["ASan/UBSan (gcc 12) as the oracle for everything not covered by a definedness theorem: dynamic-array growth, stats I/O, MPI buffers, "
                    "auto_ckpt float conversion - sampling only",
                    "token scheduler: data races are NOT explored by these runs (one worker runs at a time)"]
    ctx.assumptions += ["valid-model contract V1-V5"]
    for mod, ths in OBLIGATIONS.items():
        runlib.lean_part(ctx, mod, list(ths))
    if not runlib.build(ctx):
        return
    n = 30 if ctx.tier == "quick" else 900
    cfgs = runlib.gen_configs(ctx, n, big=(ctx.tier != "quick"))
    agg = runlib.Agg()
    jobs = []
    for i, c in enumerate(cfgs):
        mode = "serial" if i % 4 == 0 else "par"
        if i % 5 == 0:
            c["tterm"] = 100
        jobs.append((i, mode, c))

    def one(j):
        i, mode, c = j
        if mode == "serial":
            r = runlib.run_serial(ctx, c, "x%d" % i)
        else:
            r = runlib.run_one(ctx, "par", c, "x%d" % i)
        return r

    with concurrent.futures.ThreadPoolExecutor(max_workers=12) as ex:
        for r in ex.map(one, jobs):
            agg.add(r)
    runlib.standard_verdicts(ctx, agg, "sanitizer-instrumented serial and parallel runs re-executed on the models",
                             ("s_double_free", "s_rb_mismatch"))
    ctx.coverage["distinct_nontrivial"] = agg.outcomes.get("ok", 0)
    ctx.coverage["rule"] = ("every run is compiled with -fsanitize=address,undefined -fno-sanitize-recover=all from the working tree; a sanitizer "
                            "report aborts the run and is a violation with the configuration as replay; non-trivial = runs that completed")
    ctx.coverage["definedness_obligations"] = {k: v for m in OBLIGATIONS.values() for k, v in m.items()}
    # uninitialised reads (clang MemorySanitizer build of the whole core): e.g. message fields the allocator leaves as they were
    from props import runlib as _rl
    _rl.msan_matrix(ctx, 12, 200, salt=11)
