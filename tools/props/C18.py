"""C18 - numerical library contracts hold for every generator state (+ the RNG facts of C09)."""
import json
import os
import vlib

THEOREMS = ["RootSim.C18." + t for t in [
    "random_zero", "random_bits", "random_value", "random_monotone", "random_ub_witness",
    "random_ub_state_counterexample", "every_raw_output_reachable", "random_ub_states", "random_partial",
    "randomStatement_pinned_counterexample", "randomFixed_bits", "randomStatement_fixed", "randomFixed_agrees",
    "randomFixed_one", "call_touches_only_caller", "call_depends_only_on_caller", "random_draws",
    "randomRange_in_range", "randomRange_fixed", "randomRangeNonUniform_in_range",
    "randomRangeNonUniform_negative_counterexample", "randomRangeNonUniformFixed_in_range",
    "nonUniformOfFixed_agrees", "oneMinus_random_range", "poisson_nonneg_finite", "expent_nonneg_finite",
    "gamma_small_nonneg_finite", "gamma_partial", "zipf_in_range", "xxtea_roundtrip", "xxtea_contract",
    "seed_function_of_lp_and_seed", "decode_zero_not_seeded", "seed_never_fixed_point", "seedState_ne_zero",
    "toyLibm_laws"]]
THEOREMS_GAMMA = ["RootSim.C18." + t for t in [
    "gamma_big_pinned_counterexample", "gamma_big_pinned_counterexample_fs", "gamma_big_pinned_nan_counterexample",
    "gamma_big_finite_nonneg", "gamma_big_fixed_total", "gamma_big_pinned_partial", "toyLibm_laws2",
    "gammaBigStatement_pinned_refuted", "gammaBigStatement_fixed", "gamma_statement_fixed",
    "gammaStatementFull_pinned_refuted"]]
THEOREMS_RAT = ["RootSim.C18.random_value_rat", "RootSim.C18.randomFixed_unit_interval_rat"]


def partial_diff(ctx, ops, cf):
    """the harness died: compare what it wrote before (complete lines only) with the model, to localise"""
    try:
        o = open(ops, errors="replace").read().splitlines()[:-1]
        c = open(cf, errors="replace").read().splitlines()[:-1]
        n = min(len(o), len(c))
        if n == 0:
            return None
        mode = "rand" if c[0] in ("UB-shift", "crash") else "rand-fs"
        po, pl = ctx.path("ops_partial"), ctx.path("lean_partial")
        open(po, "w").write("\n".join(o[:n]) + "\n")
        ctx.driver(mode, po, pl)
        l = open(pl, errors="replace").read().splitlines()
        for i in range(min(n, len(l))):
            if c[i] != l[i] and not o[i].startswith("nonuni"):
                return {"line": i + 1, "op": o[i], "impl": c[i], "model": l[i], "compared_lines": n}
        return {"none_in_lines": n}
    except Exception as ex:  # diagnostics only
        return {"error": repr(ex)}


def oracle_lines(ctx, orf):
    """S oracle: one line per failure of the property on the implementation -> violations (first 3 per kind)"""
    try:
        lines = open(orf, errors="replace").read().splitlines()
    except OSError:
        lines = []
    seen = {}
    for l in lines:
        tok = l.split()
        if not tok:
            continue
        if tok[0] == "UB-SHIFT":
            kind, det = "ub-shift-random", {"raw_output": "1", "input": l}
        elif tok[:3] == ["RANGE", "RandomRangeNonUniform", "negative-min"]:
            kind, det = "range-nonuniform-negative-min", {"domain": "min<0", "input": l}
        else:
            kind, det = "oracle-" + tok[0].lower(), {"input": l}
        seen[kind] = seen.get(kind, 0) + 1
        if seen[kind] <= 3:
            ctx.violation(kind, det, True)
    ctx.coverage["oracle_lines"] = seen


def run(ctx):
    ctx.trusted += [
        "IEEE-754 binary64 round-to-nearest-even for *, -, +, / and the comparisons (modelled concretely by rneNat / divFin "
        "and compared bit-exactly with the FPU by the correspondence run: compiled C expressions and `fop` lines on special "
        "values, random bit patterns, ties, subnormal and overflowing results; one zero and one NaN in the model: -0.0 and "
        "NaN payloads are canonicalised, no -0.0 operand); no fused multiply-add contraction (x86-64 baseline); floor and "
        "integer<->double casts exact",
        "libm log/pow: only the three facts of LibmLaws (log of [2^-k,1] is finite in [-k,0]; pow(x in (0,1), y<0) "
        "is +inf or >= 1; pow(0, y<0) = +inf) are assumed, nothing else",
        "libm sqrt/exp (rejection branch of Gamma): only LibmLaws2 (sqrt of a finite x >= 1 is finite with 1 <= sqrt x <= x; "
        "exp is never negative, used by the +inf counter-example on the pinned code only); nothing is assumed of log there",
        "little-endian layout of uint64_t[4] viewed as uint32_t[8] (random_lib_lp_init)",
        "order of the two RandomRange calls inside RandomRangeNonUniform is the one gcc emits (left first); the "
        "range theorem is proved for both orders"]
    ctx.assumptions += [
        "RandomRange(min,max): min <= max and max-min+1 <= INT_MAX (no int overflow)",
        "RandomRangeNonUniform(x,min,max): 0 <= x < INT_MAX, min <= max, max-min+1 <= INT_MAX, and 0 <= min on the "
        "pinned tree (finding F11 for min < 0)",
        "Zipf: -1/skew-1 finite and negative (skew > 0), limit < 2^32; termination of the rejection loops "
        "(Normal, Gamma>=6, Zipf) is NOT claimed",
        "Gamma: every order ia < 2^32 (an `unsigned`); ia >= 6 is proved for the code with the F14 repair (inner loop rejects "
        "v1 == 0.0) and refuted for the code without it; the theorems are about the runs that return (every fuel)",
        "Expent(mean): 0 <= mean <= 2^1000"]
    ok, _ = ctx.lean_build(["RootSim.Props.C18", "RootSim.Props.C18Gamma", "RootSim.Props.C18Rat"])
    ctx.token_audit()
    if ok:
        ctx.axiom_audit("RootSim.Props.C18", THEOREMS)
        ctx.axiom_audit("RootSim.Props.C18Gamma", THEOREMS_GAMMA)
        ctx.axiom_audit("RootSim.Props.C18Rat", THEOREMS_RAT)
        if ctx.tier == "thorough":
            ctx.leanchecker("RootSim.Props.C18")
            ctx.leanchecker("RootSim.Props.C18Gamma")
    rnd = os.path.join(vlib.REPO, "src", "lib", "random")
    if not ctx.cc("hc18", [os.path.join(vlib.HARNESS, "hc18.c"), os.path.join(rnd, "random.c"),
                           os.path.join(rnd, "xxtea.c")]):
        return
    n = 100000 if ctx.tier == "quick" else 1000000
    ops, cf, orf = ctx.path("ops"), ctx.path("c"), ctx.path("oracle")
    # the unchanged tree needs < 1 s (quick) / < 10 s (thorough); a hang of a rejection loop is a result
    rc, out = vlib.run([ctx.path("hc18"), str(ctx.seed), str(n), ops, cf, orf],
                       timeout=90 if ctx.tier == "quick" else 900)
    ctx.oblige("harness-run:hc18", rc == 0, out[-800:])
    if rc != 0:
        # sanitizer abort / crash / hang of the implementation is a result in itself
        ctx.violation("harness-hang" if rc == 124 else "harness-crash",
                      {"output": out[-800:], "first_divergence_before_failure": partial_diff(ctx, ops, cf)}, True)
        oracle_lines(ctx, orf)
        return
    stats = json.loads(out.strip().splitlines()[-1])
    # which tree is this?  (observed on the implementation, then the matching model is used for the diff)
    fix_shift = stats["u1"] not in ("UB-shift", "crash")
    fix_mod = stats["nonuni_probe"] == -3
    mode = "rand" + ("-fs" if fix_shift else "") + ("-fm" if fix_mod else "")
    stats["model_variant"] = mode
    ctx.coverage.update({
        "evaluations": stats["lines"],
        "distinct_nontrivial": stats["boundary_raw_outputs"] + stats["leading_one_positions_covered"],
        "rule": "one evaluation = one protocol line (real C function vs Lean definition, bit-exact): xoshiro steps, "
                "Random() bit patterns for crafted raw outputs (all 0/1/2^k/2^k+-1/all-ones/truncation boundaries + "
                "seeded random outputs with every leading-one position equally likely), seeding, XXTEA, RandomRange/"
                "NonUniform with boundary arguments, 1-Random(), Random()*n, Gamma operand chains (ia < 6: x; ia >= 6: first pass "
                "of the rejection branch: inner loop, v1, v2, y, am, 2am+1, for the code version observed on the implementation), "
                "single binary64 operations (fop); non-trivial = "
                "distinct boundary raw outputs + leading-one positions (distinct code paths of the conversion) covered",
        "input_distribution": stats})
    ctx.kdiff(mode, "rand(next,bits,random,seed,xxtea,range,rrange,nonuni,onem,mul,gammax,gammabig1,fop)", ops, cf)
    allops = open(ops).read().splitlines()
    ctx.samples += allops[:1] + allops[30000:30002] + allops[-3:]
    oracle_lines(ctx, orf)
