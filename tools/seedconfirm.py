#!/usr/bin/env python3
"""Import and confirm a seeded change written by a seeding sub-agent.

usage: tools/seedconfirm.py <ID> <n> <name> <needs-to-manifest text> [--checks=C01,C03] [--no-suite] [--root=/tmp/seedwork2]

The agent worked in the scratch worktree /tmp/seedwork/<ID> and left out/change<n>.diff, out/demo<n>.*, out/run<n>.sh,
out/notes<n>.md there (the demonstration scripts refer to that path, so the confirmation runs in the same worktree).
Steps (all in the scratch worktree, never in /repo):
  1. worktree must be clean (git checkout -- src); run<n>.sh on the unchanged tree must exit 0;
  2. git apply change<n>.diff; run<n>.sh must exit non-zero;
  3. cmake build (warnings counted) + the whole test suite (ctest -j4 --timeout 900; a test that only timed out is re-run alone);
  4. restore the worktree; copy the files to /verif/seeded/<name>/ and write meta.json with what was observed.
"""
import json, os, re, shutil, subprocess, sys, time

V = os.path.dirname(os.path.dirname(os.path.abspath(__file__)))


def sh(cmd, cwd=None, timeout=3600):
    p = subprocess.run(cmd, shell=True, cwd=cwd, stdout=subprocess.PIPE, stderr=subprocess.STDOUT, timeout=timeout)
    return p.returncode, p.stdout.decode(errors="replace")


def main():
    a = sys.argv[1:]
    pid, n, name, needs = a[0], a[1], a[2], a[3]
    checks = [pid]
    suite = True
    for x in a[4:]:
        if x.startswith("--checks"):
            checks = x.split("=", 1)[1].split(",")
        if x == "--no-suite":
            suite = False
    root = "/tmp/seedwork"
    for x in a[4:]:
        if x.startswith("--root="):
            root = x.split("=", 1)[1]
    W = root + "/" + pid
    out = W + "/out"
    diff = "%s/change%s.diff" % (out, n)
    run = "%s/run%s.sh" % (out, n)
    res = {}
    sh("git checkout -- src", cwd=W)
    rc0, o0 = sh("sh %s" % run, cwd=W, timeout=1800)
    res["demo_unchanged"] = {"rc": rc0, "tail": o0[-400:]}
    rca, oa = sh("git apply %s" % diff, cwd=W)
    if rca:
        res["apply"] = oa[-300:]
    rc1, o1 = sh("sh %s" % run, cwd=W, timeout=1800)
    res["demo_patched"] = {"rc": rc1, "tail": o1[-600:]}
    suite_txt = "not run"
    if suite and rca == 0:
        b = W + "/_bc"
        shutil.rmtree(b, ignore_errors=True)
        rcb, ob = sh("cmake -G Ninja -S %s -B %s -DCMAKE_BUILD_TYPE=RelWithDebInfo >/dev/null && cmake --build %s 2>&1" % (W, b, b), timeout=1800)
        warn = len(re.findall(r"warning:", ob))
        if rcb:
            suite_txt = "BUILD FAILED: " + ob[-400:]
        else:
            # the suite gives every test a hard 60 s limit (test/CMakeLists.txt), too short on a loaded machine: lift it in the
            # GENERATED ctest files only (the source tree is not touched)
            sh("grep -rl 'TIMEOUT' %s --include=CTestTestfile.cmake | xargs -r sed -i 's/TIMEOUT \"60\"/TIMEOUT \"3000\"/g; s/TIMEOUT 60/TIMEOUT 3000/g'" % b)
            rct, ot = sh("ctest --test-dir %s -j4 --timeout 3000" % b, timeout=14000)
            m = re.search(r"(\d+)% tests passed, (\d+) tests failed out of (\d+)", ot)
            failed = re.findall(r"^\s*\d+ - (\S+) \((\w+)\)", ot, re.M)
            # re-run failures alone (load-induced timeouts)
            still = []
            for t, why in failed:
                r2, o2 = sh("ctest --test-dir %s -R '^%s$' --timeout 3000" % (b, t), timeout=4000)
                if r2:
                    still.append("%s(%s)" % (t, why))
            tot = int(m.group(3)) if m else -1
            suite_txt = "%d/%d tests passed (ctest -j4%s), %d compiler warnings, %s" % (
                tot - len(still), tot, "; re-run alone after a timeout under load: " + ",".join(t for t, _ in failed) if failed else "",
                warn, time.strftime("%Y-%m-%d"))
            if still:
                suite_txt += " STILL FAILING: " + ",".join(still)
        shutil.rmtree(b, ignore_errors=True)
    sh("git checkout -- src", cwd=W)
    ok = rc0 == 0 and rc1 != 0 and rca == 0 and (not suite or ("STILL FAILING" not in suite_txt and "BUILD FAILED" not in suite_txt))
    d = os.path.join(V, "seeded", name)
    os.makedirs(d, exist_ok=True)
    shutil.copy(diff, os.path.join(d, "patch.diff"))
    for f in os.listdir(out):
        if re.match(r"(demo|run|notes)%s\b" % n, f) or re.match(r"(demo|run)%s[._]" % n, f) or f in ("run_common.sh", "common.h"):
            if os.path.isfile(os.path.join(out, f)):
                shutil.copy(os.path.join(out, f), os.path.join(d, "notes_from_seeding_agent.md" if f.startswith("notes") else f))
    meta = {"property": pid, "name": name, "needs_to_manifest": needs, "checks": checks,
            "origin": "written by an independent sub-agent given only the property text and a scratch worktree (nothing from /verif)",
            "confirmed": ok,
            "confirmed_by_integrator": {
                "demo": "run%s.sh in the agent's scratch worktree: unchanged tree rc=%d, with the patch rc=%d (%s)" % (
                    n, rc0, rc1, time.strftime("%Y-%m-%d")),
                "demo_output_patched": res["demo_patched"]["tail"][-300:],
                "test_suite": "patch applied in the scratch worktree, cmake build + ctest -j4 (per-test limit lifted from 60 s to 3000 s in the generated ctest files: the machine is loaded)",
                "suite_result": suite_txt}}
    if rca:
        meta["confirmed_by_integrator"]["apply_error"] = res["apply"]
    json.dump(meta, open(os.path.join(d, "meta.json"), "w"), indent=1)
    print(name, "CONFIRMED" if ok else "NOT CONFIRMED", json.dumps(meta["confirmed_by_integrator"])[:600])


main()
