#!/usr/bin/env python3
"""Evaluate seeded changes: tools/seedtest.py <patch.diff> <ID> [<ID>...]
Applies the patch to a scratch copy of /repo (so that /repo itself stays untouched while other jobs use it),
runs the named checks against it (VERIF_REPO), prints which ones report a VIOLATION."""
import os, shutil, subprocess, sys, tempfile
V = os.path.dirname(os.path.dirname(os.path.abspath(__file__)))
patch, ids = sys.argv[1], sys.argv[2:]
d = tempfile.mkdtemp(prefix="seedrepo_")
try:
    subprocess.check_call(["git", "-C", "/repo", "worktree", "add", "-q", "--detach", d + "/r", "HEAD"], stdout=subprocess.DEVNULL)
    r = d + "/r"
    subprocess.check_call(["git", "-C", r, "apply", os.path.abspath(patch)])
    for pid in ids:
        env = dict(os.environ, VERIF_REPO=r, VERIF_EVIDENCE=os.path.join(os.path.dirname(r), "evidence"), VERIF_REPLAYS=os.path.join(V, "replays"))
        p = subprocess.run(["python3", "tools/check.py", pid], cwd=V, env=env, stdout=subprocess.PIPE, stderr=subprocess.STDOUT)
        out = p.stdout.decode(errors="replace")
        v = [l for l in out.splitlines() if l.startswith("VIOLATION") or l.startswith("KNOWN")]
        print("%s %s: rc=%d %s" % (os.path.basename(patch), pid, p.returncode, (v[0][:160] if v else "no violation")), flush=True)
finally:
    subprocess.call(["git", "-C", "/repo", "worktree", "remove", "--force", d + "/r"], stdout=subprocess.DEVNULL, stderr=subprocess.DEVNULL)
    shutil.rmtree(d, ignore_errors=True)
    # evidence files were rewritten by the mutant runs: restore the committed ones
    subprocess.call(["git", "-C", V, "checkout", "--", "evidence"], stdout=subprocess.DEVNULL, stderr=subprocess.DEVNULL)
