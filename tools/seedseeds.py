#!/usr/bin/env python3
"""Detection stability: for every confirmed seeded change, run the property's own check (first entry of meta["checks"]) against the
patched tree for several VERIF_SEED values and report which (change, seed) pairs are NOT detected.
usage: tools/seedseeds.py [--seeds 2,3] [--jobs 2] [name-prefix ...]   -> writes /verif/seeded/STABILITY.json"""
import concurrent.futures, json, os, shutil, subprocess, sys, tempfile
V = os.path.dirname(os.path.dirname(os.path.abspath(__file__)))
S = os.path.join(V, "seeded")
seeds, jobs, want = [2, 3], 2, []
args = sys.argv[1:]
while args:
    a = args.pop(0)
    if a == "--seeds":
        seeds = [int(x) for x in args.pop(0).split(",")]
    elif a == "--jobs":
        jobs = int(args.pop(0))
    else:
        want.append(a)


def one(name):
    d = os.path.join(S, name)
    meta = json.load(open(os.path.join(d, "meta.json")))
    pid = (meta.get("checks") or [meta["property"]])[0]
    tmp = tempfile.mkdtemp(prefix="seedseeds_")
    r = tmp + "/r"
    res = {}
    try:
        subprocess.check_call(["git", "-C", "/repo", "worktree", "add", "-q", "--detach", r, "HEAD"], stdout=subprocess.DEVNULL)
        ap = subprocess.run(["git", "-C", r, "apply", os.path.join(d, "patch.diff")], stderr=subprocess.PIPE)
        if ap.returncode:
            return name, pid, {"_apply": ap.stderr.decode()[:200]}
        for sd in seeds:
            # a private copy of the evidence dir is not needed: evidence files are restored from git at the end
            p = subprocess.run(["python3", "tools/check.py", pid, "--seed", str(sd)], cwd=V, env=dict(os.environ, VERIF_REPO=r, VERIF_EVIDENCE=os.path.join(os.path.dirname(r), "evidence"), VERIF_REPLAYS=os.path.join(V, "replays")),
                               stdout=subprocess.PIPE, stderr=subprocess.STDOUT)
            out = p.stdout.decode(errors="replace")
            v = [l for l in out.splitlines() if l.startswith("VIOLATION")]
            res[str(sd)] = ("witness" if v and "no-failing-input-found" not in v[0] else "broken-tie") if v else "MISSED"
    finally:
        subprocess.call(["git", "-C", "/repo", "worktree", "remove", "--force", r], stdout=subprocess.DEVNULL, stderr=subprocess.DEVNULL)
        shutil.rmtree(tmp, ignore_errors=True)
    return name, pid, res


names = [n for n in sorted(os.listdir(S)) if os.path.exists(os.path.join(S, n, "meta.json")) and (not want or any(n.startswith(w) for w in want))]
out = {}
with concurrent.futures.ThreadPoolExecutor(max_workers=jobs) as ex:
    for name, pid, res in ex.map(one, names):
        out[name] = {"check": pid, "seeds": res}
        print(name, pid, res, flush=True)
sp = os.path.join(S, "STABILITY.json")
old = json.load(open(sp)) if os.path.exists(sp) else {}
old.update(out)
json.dump(old, open(sp, "w"), indent=1)
subprocess.call(["git", "-C", V, "checkout", "--", "evidence"], stdout=subprocess.DEVNULL, stderr=subprocess.DEVNULL)
missed = [(n, s) for n, r in out.items() for s, x in r["seeds"].items() if x == "MISSED"]
print("MISSED:", missed)
