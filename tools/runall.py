#!/usr/bin/env python3
"""Runs every claimed check (quick tier) on the current tree, in sequence; prints a summary.
Use before committing evidence files."""
import json, os, subprocess, sys, time
V = os.path.dirname(os.path.dirname(os.path.abspath(__file__)))
m = json.load(open(os.path.join(V, "MANIFEST.json")))
only = sys.argv[1:]
bad = []
for c in m["checks"]:
    pid = c["property_id"]
    if only and pid not in only:
        continue
    t = time.time()
    p = subprocess.run(c["quick_cmd"], shell=True, cwd=V, stdout=subprocess.PIPE, stderr=subprocess.STDOUT)
    out = p.stdout.decode(errors="replace")
    last = [l for l in out.splitlines() if l.strip()][-1:] or [""]
    print("%s rc=%d %.0fs  %s" % (pid, p.returncode, time.time() - t, last[0][:150]), flush=True)
    if p.returncode != 0 or "VIOLATION" in out:
        bad.append(pid)
        print(out[-1500:])
print("BAD:", bad)
sys.exit(1 if bad else 0)
