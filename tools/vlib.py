"""Common machinery of the /verif checks.

Every property check (tools/props/Cxx.py) uses this library to
  * build the Lean library + driver (T status) and audit it (forbidden tokens, #print axioms),
  * build a C harness from /repo's CURRENT working tree (hooks on, sanitizers on),
  * run the correspondence (K-diff): same operation lines through the real C code and the
    Lean model's executable definitions, diff of canonical outputs,
  * run the property-level search oracle (S) on the implementation,
  * apply the VIOLATION / KNOWN-FINDING protocol and write evidence/<id>.json.
"""
import fcntl
import json
import os
import re
import shutil
import subprocess
import sys
import tempfile
import time

VERIF = os.path.dirname(os.path.dirname(os.path.abspath(__file__)))
REPO = os.environ.get("VERIF_REPO", "/repo")
LEAN = os.path.join(VERIF, "lean")
DRIVER = os.path.join(LEAN, ".lake", "build", "bin", "driver")
HARNESS = os.path.join(VERIF, "harness")
# runs against a patched scratch tree (tools/seed*.py) redirect their evidence / replay files so that the committed evidence is never overwritten
EVIDENCE = os.environ.get("VERIF_EVIDENCE", os.path.join(VERIF, "evidence"))
REPLAYS = os.environ.get("VERIF_REPLAYS", os.path.join(VERIF, "replays"))
GUARD = "ROOTSIM_VERIF"
ALLOWED_AXIOMS = {"propext", "Classical.choice", "Quot.sound"}
FORBIDDEN = [r"\bsorry\b", r"\badmit\b", r"^\s*axiom\s", r"native_decide", r"bv_decide",
             r"implemented_by", r"\bunsafe\s", r"maxHeartbeats\s+0\b", r"\bextern\b"]

GLOBAL_TRUSTED = [
    "Lean 4.33.0 kernel (thorough tier re-checks the property modules with leanchecker)",
    "axioms: propext, Classical.choice, Quot.sound only (audited with #print axioms on every run); "
    "no native_decide, no bv_decide, no sorry/admit/axiom (token audit on every run)",
    "hand-written Lean model: tied to /repo by the correspondence run (differential execution of the "
    "model's executable definitions vs. the real C code built from the working tree) - sampling, not proof",
    "the C harness, its generators and canonicalisation; gcc + ASan/UBSan",
]


def log(*a):
    print(*a, flush=True)


def run(cmd, cwd=None, timeout=None, env=None, stdin=None, capture=True):
    """subprocess wrapper returning (rc, stdout+stderr)"""
    e = dict(os.environ)
    if env:
        e.update(env)
    try:
        p = subprocess.run(cmd, cwd=cwd, timeout=timeout, env=e, stdin=stdin,
                           stdout=subprocess.PIPE if capture else None,
                           stderr=subprocess.STDOUT if capture else None,
                           shell=isinstance(cmd, str))
        return p.returncode, (p.stdout.decode("utf-8", "replace") if capture else "")
    except subprocess.TimeoutExpired as ex:
        out = ex.stdout.decode("utf-8", "replace") if ex.stdout else ""
        return 124, out + "\n[timeout]"


class Ctx:
    def __init__(self, pid, tier, seed):
        self.pid = pid
        self.tier = tier
        self.seed = seed
        self.t0 = time.time()
        self.tmp = tempfile.mkdtemp(prefix="verif_%s_" % pid)
        self.obligations = []   # list of (name, ok, detail)
        self.coverage = {}
        self.assumptions = []
        self.trusted = list(GLOBAL_TRUSTED)
        self.samples = []
        self.violations = []    # list of dict(kind, detail, replay, found_input)
        self.known_hits = []
        self.broken = []        # names of T/K obligations that no longer check

    def path(self, name):
        return os.path.join(self.tmp, name)

    def cleanup(self):
        shutil.rmtree(self.tmp, ignore_errors=True)

    # ------------------------------------------------------------------ obligations
    def oblige(self, name, ok, detail=""):
        self.obligations.append((name, bool(ok), detail))
        if not ok:
            self.broken.append(name)
            log("  [BROKEN] %s %s" % (name, detail[:300]))

    # ------------------------------------------------------------------ Lean side
    def lean_build(self, targets):
        """lake build of the given targets (+ driver). Serialised by a file lock."""
        os.makedirs(os.path.join(LEAN, ".lake"), exist_ok=True)
        with open(os.path.join(LEAN, ".lake", "verif.lock"), "w") as lk:
            fcntl.flock(lk, fcntl.LOCK_EX)
            rc, out = run(["lake", "build"] + list(targets) + ["driver"], cwd=LEAN, timeout=3000)
            # private copy of the driver: a concurrent check may relink the shared binary at any time
            if rc == 0 and os.path.exists(DRIVER):
                self.driver_bin = self.path("driver_bin")
                shutil.copy2(DRIVER, self.driver_bin)
            fcntl.flock(lk, fcntl.LOCK_UN)
        ok = rc == 0
        errs = "\n".join(l for l in out.splitlines() if "error" in l.lower())[:2000]
        self.oblige("lean-build:" + ",".join(targets), ok, errs)
        return ok, out

    def token_audit(self):
        """no sorry/admit/axiom/native_decide/... anywhere in the Lean sources (comments stripped)"""
        bad = []
        for root in (os.path.join(LEAN, "RootSim"), os.path.join(LEAN, "Driver")):
            for d, _, fs in os.walk(root):
                for f in fs:
                    if not f.endswith(".lean"):
                        continue
                    src = open(os.path.join(d, f), encoding="utf-8").read()
                    src = strip_lean_comments(src)
                    for pat in FORBIDDEN:
                        for m in re.finditer(pat, src, re.M):
                            bad.append("%s: %s" % (os.path.relpath(os.path.join(d, f), LEAN), m.group(0).strip()))
        self.oblige("token-audit(no sorry/admit/axiom/native_decide/bv_decide/implemented_by/unsafe)",
                    not bad, "; ".join(bad[:10]))
        return not bad

    def axiom_audit(self, module, theorems):
        """#print axioms for every property theorem; each must exist and use only allowed axioms"""
        src = "import %s\n" % module + "".join("#print axioms %s\n" % t for t in theorems)
        f = self.path("axioms_%s.lean" % module.replace(".", "_"))
        open(f, "w").write(src)
        rc, out = run(["lake", "env", "lean", f], cwd=LEAN, timeout=1200)
        # parse: "'name' depends on axioms: [a, b]" or "'name' does not depend on any axioms"
        txt = out.replace("\n  ", " ").replace("\n ", " ")
        res = {}
        for m in re.finditer(r"'([^']+)' depends on axioms: \[([^\]]*)\]", txt):
            res[m.group(1)] = set(x.strip() for x in m.group(2).split(",") if x.strip())
        for m in re.finditer(r"'([^']+)' does not depend on any axioms", txt):
            res[m.group(1)] = set()
        allok = True
        for t in theorems:
            if t not in res:
                self.oblige("theorem:" + t, False, "not found / does not compile: " + out[-400:])
                allok = False
            else:
                extra = res[t] - ALLOWED_AXIOMS
                self.oblige("theorem:" + t, not extra,
                            "axioms=" + ",".join(sorted(res[t])) if extra else "")
                allok &= not extra
        return allok

    def leanchecker(self, module):
        rc, out = run(["lake", "env", "leanchecker", module], cwd=LEAN, timeout=3000)
        self.oblige("leanchecker:" + module, rc == 0, out[-300:])
        return rc == 0

    # ------------------------------------------------------------------ C side
    def cc(self, out, sources, extra=(), mpi=False, sanitize=True, opt="-O1", defs=()):
        """compile a harness against /repo's current working tree"""
        cmd = ["mpicc" if mpi else "gcc", "-std=gnu11", opt, "-g", "-DNDEBUG", "-D" + GUARD,
               '-DROOTSIM_VERSION="verif"', "-I" + os.path.join(REPO, "src"), "-I" + HARNESS, "-w"]
        if sanitize:
            cmd += ["-fsanitize=address,undefined", "-fno-sanitize-recover=all"]
        cmd += ["-D" + d for d in defs]
        cmd += list(sources) + list(extra) + ["-o", self.path(out), "-lm", "-lpthread"]
        rc, o = run(cmd, timeout=600)
        self.oblige("harness-build:" + out, rc == 0, o[-1500:])
        return rc == 0

    def core_sources(self, mpi=False, exclude=()):
        """the source list of src/CMakeLists.txt, read from the working tree"""
        txt = open(os.path.join(REPO, "src", "CMakeLists.txt")).read()
        m = re.search(r"set\(rscore_srcs\s+(.*?)\)", txt, re.S)
        srcs = m.group(1).split()
        srcs.append("distributed/mpi.c" if mpi else "distributed/no_mpi.c")
        return [os.path.join(REPO, "src", s) for s in srcs if s not in exclude]

    def driver(self, mode, ops_file, out_file, timeout=1200):
        with open(ops_file, "rb") as fi, open(out_file, "wb") as fo:
            try:
                p = subprocess.run([getattr(self, "driver_bin", DRIVER), mode], stdin=fi, stdout=fo, stderr=subprocess.PIPE, timeout=timeout)
                return p.returncode == 0
            except subprocess.TimeoutExpired:
                return False

    def kdiff(self, mode, name, ops_file, c_file, context=None):
        """same op lines through the model; compare line by line; returns first divergence or None"""
        l_file = c_file + ".lean"
        ok = self.driver(mode, ops_file, l_file)
        ops = open(ops_file, errors="replace").read().splitlines()
        c = open(c_file, errors="replace").read().splitlines()
        l = open(l_file, errors="replace").read().splitlines()
        div = None
        n = min(len(c), len(l))
        for i in range(n):
            if c[i] != l[i]:
                div = {"line": i + 1, "op": ops[i] if i < len(ops) else "?", "impl": c[i], "model": l[i]}
                break
        if div is None and (len(c) != len(l) or not ok):
            div = {"line": n + 1, "op": ops[n] if n < len(ops) else "<eof>",
                   "impl": c[n] if n < len(c) else "<eof>", "model": l[n] if n < len(l) else "<eof>"}
        self.coverage.setdefault("correspondence", {})[name] = {"lines_compared": n, "diverged": div is not None}
        self.oblige("correspondence:" + name, div is None, json.dumps(div) if div else "")
        if div and context:
            div["context"] = context
        return div

    # ------------------------------------------------------------------ verdict
    def violation(self, kind, detail, found_input):
        self.violations.append({"kind": kind, "detail": detail, "found_input": found_input})

    def finish(self, level_text_extra=None):
        wall = time.time() - self.t0
        os.makedirs(EVIDENCE, exist_ok=True)
        os.makedirs(os.path.join(REPLAYS, self.pid), exist_ok=True)
        known = load_known(self.pid)
        rc = 0
        lines = []
        # 1. concrete failing inputs found by S (or confirmed divergences)
        real = []
        for v in self.violations:
            sig = match_known(known, v)
            if sig:
                self.known_hits.append(sig)
                continue
            real.append(v)
        for sig in sorted(set(k["id"] + " " + k["what"] for k in self.known_hits)):
            lines.append("KNOWN-FINDING: property=%s %s" % (self.pid, sig))
        stamp = "%s_%d_%d" % (self.tier, self.seed, int(time.time()))
        if real:
            rp = os.path.join(REPLAYS, self.pid, "witness_%s.json" % stamp)
            json.dump({"property": self.pid, "tier": self.tier, "seed": self.seed,
                       "violations": real, "broken_obligations": self.broken}, open(rp, "w"), indent=1)
            lines.append("VIOLATION property=%s replay=%s" % (self.pid, rp))
            rc = 1
        elif self.broken:
            rp = os.path.join(REPLAYS, self.pid, "broken_%s.json" % stamp)
            json.dump({"property": self.pid, "tier": self.tier, "seed": self.seed,
                       "no_failing_input_found": True,
                       "broken_obligations": [{"name": n, "detail": d} for (n, ok, d) in self.obligations if not ok]},
                      open(rp, "w"), indent=1)
            lines.append("VIOLATION property=%s replay=%s no-failing-input-found" % (self.pid, rp))
            rc = 1
        n_obl = len(self.obligations)
        n_ok = sum(1 for o in self.obligations if o[1])
        cov = dict(self.coverage)
        cov.update({
            "obligations": n_obl,
            "discharged": n_ok,
            "checker_cmd": "cd /verif/lean && lake build && lake env lean <#print axioms file> "
                           "(tools/check.py %s --tier %s)" % (self.pid, self.tier),
            "trusted_base": self.trusted,
            "obligation_list": [{"name": n, "ok": ok} for (n, ok, d) in self.obligations],
            "samples": self.samples[:12] if self.samples else [o[0] for o in self.obligations[:8]],
        })
        ev = {"property_id": self.pid, "tier": self.tier, "seed": self.seed, "level": "proof",
              "coverage": cov, "assumptions": self.assumptions, "wall_s": round(wall, 2),
              "violations": len(real) + (1 if (self.broken and not real) else 0),
              "known_findings_hit": sorted(set(k["id"] for k in self.known_hits))}
        json.dump(ev, open(os.path.join(EVIDENCE, self.pid + ".json"), "w"), indent=1)
        for l in lines:
            log(l)
        log("%s %s tier=%s seed=%d obligations=%d/%d wall=%.1fs" %
            ("FAIL" if rc else "OK", self.pid, self.tier, self.seed, n_ok, n_obl, wall))
        self.cleanup()
        return rc


def strip_lean_comments(src):
    # nested block comments
    out = []
    i = 0
    depth = 0
    n = len(src)
    while i < n:
        if src.startswith("/-", i):
            depth += 1
            i += 2
        elif depth and src.startswith("-/", i):
            depth -= 1
            i += 2
        elif depth:
            if src[i] == "\n":
                out.append("\n")
            i += 1
        elif src.startswith("--", i):
            while i < n and src[i] != "\n":
                i += 1
        elif src[i] == '"':
            j = i + 1
            while j < n and src[j] != '"':
                j += 2 if src[j] == "\\" else 1
            out.append('""')
            i = j + 1
        else:
            out.append(src[i])
            i += 1
    return "".join(out)


def load_known(pid):
    p = os.path.join(VERIF, "known_findings.json")
    if not os.path.exists(p):
        return []
    d = json.load(open(p))
    return [k for k in d.get("known", []) if k.get("property") == pid]


def match_known(known, v):
    """a violation is 'known' iff its signature (kind + every key of `match`) agrees with a listed finding"""
    for k in known:
        if k.get("kind") != v.get("kind"):
            continue
        m = k.get("match", {})
        det = v.get("detail", {})
        if all(str(det.get(a)) == str(b) for a, b in m.items()):
            return k
    return None


def seed_tier(argv):
    import argparse
    ap = argparse.ArgumentParser()
    ap.add_argument("pid")
    ap.add_argument("--tier", default=os.environ.get("VERIF_TIER", "quick"))
    ap.add_argument("--seed", type=int, default=int(os.environ.get("VERIF_SEED", "1")))
    ap.add_argument("--replay", default=None)
    a = ap.parse_args(argv)
    if a.replay:
        r = json.load(open(a.replay))
        a.tier = r.get("tier", a.tier)
        a.seed = r.get("seed", a.seed)
    return a
