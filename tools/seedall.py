#!/usr/bin/env python3
"""Re-evaluate every seeded change under /verif/seeded: apply patch.diff to a scratch worktree of /repo HEAD, run the checks
named in meta.json["checks"] (default: the property's own check) with VERIF_REPO pointing at it, and record in meta.json which
report a VIOLATION (with or without a failing input). Usage: tools/seedall.py [name-prefix ...]"""
import json, os, shutil, subprocess, sys, tempfile, time
V = os.path.dirname(os.path.dirname(os.path.abspath(__file__)))
S = os.path.join(V, "seeded")
want = [a for a in sys.argv[1:] if not a.startswith("--jobs=")]
JOBS = int(([a.split("=")[1] for a in sys.argv[1:] if a.startswith("--jobs=")] or ["1"])[0])


def one(name):
    d = os.path.join(S, name)
    mp = os.path.join(d, "meta.json")
    if not os.path.exists(mp) or (want and not any(name.startswith(w) for w in want)):
        return
    meta = json.load(open(mp))
    checks = meta.get("checks") or [meta["property"]]
    tmp = tempfile.mkdtemp(prefix="seedrepo_")
    r = tmp + "/r"
    res = {}
    try:
        subprocess.check_call(["git", "-C", "/repo", "worktree", "add", "-q", "--detach", r, "HEAD"], stdout=subprocess.DEVNULL)
        ap = subprocess.run(["git", "-C", r, "apply", os.path.join(d, "patch.diff")], stderr=subprocess.PIPE)
        if ap.returncode:
            res = {"_apply": "patch no longer applies to /repo HEAD: " + ap.stderr.decode()[:200]}
        else:
            for pid in checks:
                p = subprocess.run(["python3", "tools/check.py", pid], cwd=V, env=dict(os.environ, VERIF_REPO=r, VERIF_EVIDENCE=os.path.join(os.path.dirname(r), "evidence"), VERIF_REPLAYS=os.path.join(V, "replays")),
                                   stdout=subprocess.PIPE, stderr=subprocess.STDOUT)
                out = p.stdout.decode(errors="replace")
                v = [l for l in out.splitlines() if l.startswith("VIOLATION")]
                res[pid] = ("VIOLATION" + (" (no-failing-input-found)" if v and "no-failing-input-found" in v[0] else " with failing input")) if v else "not detected (quick tier, seed 1)"
    finally:
        subprocess.call(["git", "-C", "/repo", "worktree", "remove", "--force", r], stdout=subprocess.DEVNULL, stderr=subprocess.DEVNULL)
        shutil.rmtree(tmp, ignore_errors=True)
    meta["checks_run"] = {"at_repo_commit": subprocess.check_output(["git", "-C", "/repo", "rev-parse", "--short", "HEAD"]).decode().strip(),
                          "date": time.strftime("%Y-%m-%d %H:%M"), "results": res}
    json.dump(meta, open(mp, "w"), indent=1)
    print(name, res, flush=True)

import concurrent.futures
with concurrent.futures.ThreadPoolExecutor(max_workers=JOBS) as ex:
    list(ex.map(one, sorted(os.listdir(S))))
