#!/usr/bin/env python3
"""Regenerates MANIFEST.json from the table below (keeps it valid at all times)."""
import json, os, subprocess
V = os.path.dirname(os.path.dirname(os.path.abspath(__file__)))
props = [json.loads(l) for l in open(os.path.join(V, "properties.jsonl"))]
CLAIMED = json.load(open(os.path.join(V, "tools", "claims.json")))
checks, na = [], []
for p in props:
    pid = p["id"]
    c = CLAIMED.get(pid)
    if not c or c.get("not_applicable"):
        na.append({"property_id": pid, "reason": (c or {}).get("not_applicable", "check not built yet in this round (see DESIGN.md section 7); no claim is made")})
        continue
    checks.append({
        "property_id": pid,
        "quick_cmd": "python3 tools/check.py %s --tier quick" % pid,
        "thorough_cmd": "python3 tools/check.py %s --tier thorough" % pid,
        "evidence_file": "/verif/evidence/%s.json" % pid,
        "replay_cmd_template": "python3 tools/check.py %s --replay {path}" % pid,
        "engine": "lean4-proof+kdiff",
        "level_claimed": {"category": "proof", "text": c["text"], "design_ref": c.get("design_ref", "DESIGN.md section 3, " + pid)},
        "level_note": c["note"],
        "technique": c["technique"],
    })
m = {
    "version": 1,
    "setup_cmd": "cd /verif/lean && lake build",
    "hooks": {
        "guard": "ROOTSIM_VERIF",
        "enable": "harnesses are compiled by tools/vlib.py straight from /repo/src with -DROOTSIM_VERIF -DNDEBUG (gcc/mpicc, ASan+UBSan); no cmake involved",
        "baseline_off_cmd": "d=$(mktemp -d /tmp/verif_baseline.XXXXXX) && cmake -G Ninja -S /repo -B $d -DCMAKE_BUILD_TYPE=RelWithDebInfo >/dev/null && cmake --build $d >/dev/null && ctest --test-dir $d -j8 --timeout 900; rc=$?; rm -rf $d; exit $rc",
        "source_commits": subprocess.check_output(["git", "-C", "/repo", "log", "--reverse", "--format=%h", "--grep=^verif hook"]).decode().split(),
        "add_only": True,
    },
    "engines": [{"name": "lean4-proof+kdiff", "path": "tools/check.py",
                 "serves_properties": [c["property_id"] for c in checks],
                 "kind_free_text": "Lean 4 theorems over executable models (lean/RootSim), tied to /repo by differential execution (C harness built from the working tree vs. compiled Lean driver) plus a property-level search oracle on the implementation"}],
    "checks": checks,
    "not_applicable": na,
    "notes": "See DESIGN.md. Every check: lake build + token/axiom audit (T), harness build from /repo working tree + correspondence run (K), oracle search on the implementation (S).",
}
json.dump(m, open(os.path.join(V, "MANIFEST.json"), "w"), indent=1)
print("claimed:", [c["property_id"] for c in checks])
