#!/usr/bin/env python3
"""Entry point: python3 tools/check.py <ID> [--tier quick|thorough] [--seed N] [--replay file]"""
import importlib
import os
import sys

sys.path.insert(0, os.path.dirname(os.path.abspath(__file__)))
import vlib


def main():
    a = vlib.seed_tier(sys.argv[1:])
    mod = importlib.import_module("props." + a.pid)
    ctx = vlib.Ctx(a.pid, a.tier, a.seed)
    try:
        mod.run(ctx)
        rc = ctx.finish()
    except Exception:
        import traceback
        traceback.print_exc()
        ctx.oblige("check-internal-error", False, traceback.format_exc()[-500:])
        rc = ctx.finish()
    sys.exit(rc)


if __name__ == "__main__":
    main()
