/* Default (no-op, weak) implementations of the ROOTSIM_VERIF hooks; a harness that needs
 * scheduling or tracing defines strong versions. (Header form for single-TU harnesses.) */
#pragma once
#include "vhooks_default.c"
