/* Default (no-op, weak) implementations of the ROOTSIM_VERIF hooks; a harness that needs
 * scheduling or tracing defines strong versions. */
#pragma once
#include <stdint.h>
__attribute__((weak)) void verif_yield(unsigned point) { (void)point; }
__attribute__((weak)) void verif_trace(unsigned kind, uint64_t a, uint64_t b, uint64_t c)
{
	(void)kind; (void)a; (void)b; (void)c;
}
