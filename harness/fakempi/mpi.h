/* Fake <mpi.h> for the adversarial-peer harness (hrun built with -DVERIF_FAKE_PEER):
 * the REAL src/distributed/mpi.c is compiled against these declarations; the implementation
 * (harness/fakempi_impl.h) plays a second rank ("the peer") that sends remote events and
 * anti-messages in adversarial orders and takes part in the GVT collectives, deterministically
 * from the harness PRNG. Only what mpi.c uses is declared. */
#pragma once
#include <stddef.h>
typedef int MPI_Comm;
typedef int MPI_Datatype;
typedef int MPI_Op;
typedef int MPI_Request;
typedef int MPI_Message;
typedef int MPI_Errhandler;
typedef struct { int count; int MPI_SOURCE; int MPI_TAG; int MPI_ERROR; } MPI_Status;
typedef void(MPI_Comm_errhandler_function)(MPI_Comm *, int *, ...);
#define MPI_COMM_WORLD 0
#define MPI_BYTE 1
#define MPI_UINT32_T 2
#define MPI_DOUBLE 3
#define MPI_UINT 4
#define MPI_SUM 1
#define MPI_MIN 2
#define MPI_ANY_SOURCE (-1)
#define MPI_REQUEST_NULL 0
#define MPI_STATUS_IGNORE ((MPI_Status *)0)
#define MPI_THREAD_SINGLE 0
#define MPI_THREAD_MULTIPLE 3
#define MPI_MAX_ERROR_STRING 256
#define MPI_SUCCESS 0
int MPI_Init_thread(int *argc, char ***argv, int required, int *provided);
int MPI_Finalize(void);
int MPI_Comm_create_errhandler(MPI_Comm_errhandler_function *fn, MPI_Errhandler *eh);
int MPI_Comm_set_errhandler(MPI_Comm c, MPI_Errhandler eh);
int MPI_Comm_get_errhandler(MPI_Comm c, MPI_Errhandler *eh);
int MPI_Errhandler_free(MPI_Errhandler *eh);
int MPI_Error_string(int code, char *str, int *len);
int MPI_Comm_rank(MPI_Comm c, int *rank);
int MPI_Comm_size(MPI_Comm c, int *size);
int MPI_Isend(const void *buf, int count, MPI_Datatype dt, int dest, int tag, MPI_Comm c, MPI_Request *req);
int MPI_Send(const void *buf, int count, MPI_Datatype dt, int dest, int tag, MPI_Comm c);
int MPI_Request_free(MPI_Request *req);
int MPI_Improbe(int source, int tag, MPI_Comm c, int *flag, MPI_Message *msg, MPI_Status *st);
int MPI_Mprobe(int source, int tag, MPI_Comm c, MPI_Message *msg, MPI_Status *st);
int MPI_Get_count(const MPI_Status *st, MPI_Datatype dt, int *count);
int MPI_Mrecv(void *buf, int count, MPI_Datatype dt, MPI_Message *msg, MPI_Status *st);
int MPI_Ireduce_scatter_block(const void *sendbuf, void *recvbuf, int recvcount, MPI_Datatype dt, MPI_Op op, MPI_Comm c, MPI_Request *req);
int MPI_Iallreduce(const void *sendbuf, void *recvbuf, int count, MPI_Datatype dt, MPI_Op op, MPI_Comm c, MPI_Request *req);
int MPI_Test(MPI_Request *req, int *flag, MPI_Status *st);
int MPI_Barrier(MPI_Comm c);
