/* C20 harness: REAL simulations of the whole core (no_mpi) with `stats_file` set; the produced
 * binary file is read back and compared with (a) the Lean codec, (b) an independent reader
 * below, (c) per-thread tallies taken through the ROOTSIM_VERIF trace hook.
 *
 * usage: hc20 <seed> <tier 0|1> <outdir> [<script file: `f6` lines, the first one the F6 witness schedule>]
 *        hc20 gen <seed> <n> <file>        random `f6` schedules
 *        hc20 probe <script file> <dir>    only the variant probe (prints {"fix6":0|1|-1})
 *   <outdir>/ops     : protocol lines for `driver stats`
 *   <outdir>/c       : the C results for the same lines
 *   <outdir>/oracle  : S oracle, one line per failure of the property on the implementation
 *   <outdir>/runs    : "<run> <bin file> <ops line of its decode op> <n_threads> <mode>"
 *   <outdir>/r<i>.bin: the statistics files produced by the real code
 * stdout: one JSON line of distribution statistics
 *
 * log/stats.c is #included (and left out of the linked core sources) so that its file-static
 * structs are visible for the sizeof/offsetof facts; everything else is linked unchanged.
 * The only interposition: the entry point `stats_on_gvt` of the included stats.c is renamed, and the symbol the
 * rest of the core calls is a one-line wrapper below that notes the call (who, which value) and forwards it.
 * That is how calls from outside the worker loop are seen (the repaired flush loop of gvt_msg_drain, which
 * has no VK_GVT trace point).
 *
 * Variant of the tree (finding F6 / its repair): observed, not configured. The first scripted schedule (the
 * kernel-checked F6 witness `RootSim.C20.same_record_count_counterexample_stop`) is replayed on the real
 * threads first: unequal record counts => the pinned flush loop (drops the value), equal => the repaired one.
 * The result goes to the driver as the first ops line (`variant <0|1>`) and into the JSON line (`fix6`).
 */
#define stats_on_gvt hc20_real_stats_on_gvt
#include "vcommon.h"
#include <log/stats.c> /* the REAL code under test */
#undef stats_on_gvt
void stats_on_gvt(simtime_t gvt); /* the symbol parallel.c (and the repaired gvt.c) call: defined below */
#include <core/verif.h>
#include <gvt/termination.h>

#include <errno.h>
#include <sched.h>
#include <signal.h>
#include <stdatomic.h>
#include <sys/mman.h>
#include <sys/stat.h>
#include <sys/wait.h>
#include <time.h>
#include <unistd.h>

/* ------------------------------------------------------------------------------------------ */
/* run configuration                                                                          */
enum { M_PRED = 0, M_TERMTIME, M_STOP_INIT, M_STOP_MID, M_SCRIPT, M_PRED_AT_INIT, M_DRYUP, M_COUNT };
static const char *const mode_names[] = {"pred", "termtime", "stop_init", "stop_mid", "script", "pred_at_init", "dryup"};
struct runcfg {
	unsigned mode, n_threads, n_lps, ckpt, gvt_period, target, slow_rid, slow_us, stop_at;
	double term_time;
	uint64_t pseed; /* perturbation seed: changes on retry */
	/* M_SCRIPT: replay of a yield-point schedule of the Lean loop model (`f6` line) */
	unsigned stop_thread, stop_batch, vote_mode;
	char sched[4096];
	char f6line[4400];
};
static struct runcfg cfg;
#define MAXT 4

/* ------------------------------------------------------------------------------------------ */
/* tracing state (per thread, indexed by the core's rid)                                       */
enum { C_FWD = 0, C_RB, C_UNDO, C_CKPT, C_SIL, C_ANTI, C_N };
static const int c_stat[C_N] = {STATS_MSG_PROCESSED, STATS_ROLLBACK, STATS_MSG_ROLLBACK, STATS_CKPT,
    STATS_MSG_SILENT, STATS_MSG_ANTI};
#define MAXREC 20000
struct ttrace {
	char *buf;
	size_t len, cap;
	char last;          /* last mergeable unit token letter, 0 if none */
	unsigned long lastn; /* its repeat count */
	unsigned long unproc, silent, fossil;
	uint64_t cur[C_N];            /* tallies since the previous VK_GVT */
	uint64_t (*per)[C_N];         /* tallies of each closed period */
	uint64_t *gvt;                /* traced value (bits) of each VK_GVT */
	unsigned long n_gvt;          /* values handed to stats_on_gvt on this thread (worker loop + flush loop) */
	unsigned long n_flush;        /* ... of which from the flush loop of gvt_msg_drain (repaired tree only) */
	unsigned long n_stray;        /* stats_on_gvt calls from anywhere else */
	unsigned long n_lost;         /* VK_GVT traced in the worker loop but no stats_on_gvt call followed */
	int gvt_pending;              /* VK_GVT traced, its stats_on_gvt call not yet seen */
	int in_flush;                 /* between VK_DRAIN_STAGE 1 and 2 */
	uint64_t left[C_N];           /* the real stats_cur at VP_WORKER_FINI */
	int left_valid, fini_seen;
	unsigned long hist;           /* processed entries currently held in p_msgs of this thread's LPs */
	unsigned long hist_viol;
	char pad[64];
};
static struct ttrace tt[MAXT];
static atomic_uint votes;
static atomic_int clock_frozen;
static atomic_ulong clock_ticks;
static atomic_int stop_called;

static void tr_flush_unit(struct ttrace *t)
{
	if(!t->last) return;
	if(t->len + 32 > t->cap) {
		t->cap = t->cap ? t->cap * 2 : 4096;
		t->buf = realloc(t->buf, t->cap);
	}
	t->len += sprintf(t->buf + t->len, t->lastn == 1 ? " %c" : " %c%lu", t->last, t->lastn);
	t->last = 0;
}
static void tr_unit(struct ttrace *t, char c)
{
	if(t->last == c) {
		t->lastn++;
		return;
	}
	tr_flush_unit(t);
	t->last = c;
	t->lastn = 1;
}
static void tr_arg(struct ttrace *t, char c, unsigned long long v, int hex)
{
	tr_flush_unit(t);
	if(t->len + 40 > t->cap) {
		t->cap = t->cap ? t->cap * 2 : 4096;
		t->buf = realloc(t->buf, t->cap);
	}
	t->len += sprintf(t->buf + t->len, hex ? " %c%llx" : " %c%llu", c, v);
}

static void note_forward(struct ttrace *t)
{
	t->cur[C_FWD]++;
	t->hist++;
	tr_unit(t, 'f');
}

/* a GVT value reaches the statistics of this thread: the period is closed */
static void note_gvt(struct ttrace *t, uint64_t bits)
{
	if(t->n_gvt < MAXREC) {
		memcpy(t->per[t->n_gvt], t->cur, sizeof(t->cur));
		t->gvt[t->n_gvt] = bits;
	}
	t->n_gvt++;
	memset(t->cur, 0, sizeof(t->cur));
	tr_arg(t, 'g', bits, 1);
}

/* the interposed entry point (see the head of the file) */
void stats_on_gvt(simtime_t gvt)
{
	if(rid < MAXT) {
		struct ttrace *t = &tt[rid];
		if(t->gvt_pending) {
			t->gvt_pending = 0; /* the worker loop: VK_GVT has announced this value */
		} else {
			if(t->in_flush) t->n_flush++; /* the flush loop of gvt_msg_drain (repaired tree) */
			else t->n_stray++;
			note_gvt(t, dbl_bits(gvt));
		}
	}
	hc20_real_stats_on_gvt(gvt);
}

/* strong definitions of the ROOTSIM_VERIF hooks */
void verif_trace(unsigned kind, uint64_t a, uint64_t b, uint64_t c)
{
	(void)a; (void)c;
	if(rid >= MAXT) return;
	struct ttrace *t = &tt[rid];
	switch(kind) {
		case VK_FORWARD: note_forward(t); break;
		case VK_UNPROCESS: t->unproc++; t->cur[C_UNDO]++; break;
		case VK_ANTI_LOCAL:
		case VK_ANTI_REMOTE: t->cur[C_ANTI]++; tr_unit(t, 'a'); break;
		case VK_ROLLBACK:
			t->cur[C_RB]++;
			if(t->unproc > t->hist) t->hist_viol++;
			else t->hist -= t->unproc;
			tr_arg(t, 'r', t->unproc, 0);
			t->unproc = 0;
			t->silent = 0;
			break;
		case VK_SILENT: t->silent++; t->cur[C_SIL]++; break;
		case VK_ROLLBACK_DONE:
			if(t->silent) tr_arg(t, 's', t->silent, 0);
			t->silent = 0;
			break;
		case VK_CKPT: t->cur[C_CKPT]++; tr_unit(t, 'c'); break;
		case VK_FOSSIL_FREE: t->fossil += !(b & 3U); break;
		case VK_FOSSIL_DONE:
			if(t->fossil) {
				if(t->fossil > t->hist) t->hist_viol++;
				else t->hist -= t->fossil;
				tr_arg(t, 'x', t->fossil, 0);
			}
			t->fossil = 0;
			break;
		case VK_GVT: /* the worker loop of parallel_thread_run */
			if(t->gvt_pending) t->n_lost++;
			t->gvt_pending = 1;
			note_gvt(t, a);
			break;
		case VK_DRAIN_STAGE:
			if(a == 1) t->in_flush = 1;
			else if(a == 2) t->in_flush = 0;
			break;
		case VK_TERM_VOTE:
			if(atomic_fetch_add(&votes, 1U) + 1 >= cfg.n_threads && cfg.mode != M_SCRIPT)
				atomic_store(&clock_frozen, 1); /* lowers the rate of the known shutdown hang (F1) */
			break;
		default: break;
	}
}

static inline void perturb(unsigned prob_den, unsigned us)
{
	static __thread uint64_t s;
	if(!s) s = cfg.pseed * 0x9e3779b97f4a7c15ULL + rid + 1;
	s ^= s << 13; s ^= s >> 7; s ^= s << 17;
	if(us && s % prob_den == 0) usleep(us);
}

/* M_SCRIPT: a grant lets the named thread run from the yield point it stands at (VP_WORKER_LOOP or
 * VP_GVT_PHASE) to its next one; entries naming a thread that has reached the drain barrier are skipped
 * (a no-op in the model too); when the script is exhausted everybody runs freely */
#include <pthread.h>
static int script_pos, script_running = -1;
static int script_finished[MAXT];
static int script_len;
static __thread int script_holding;
static pthread_mutex_t script_mu = PTHREAD_MUTEX_INITIALIZER;
static pthread_cond_t script_cv = PTHREAD_COND_INITIALIZER;
/* give the grant back (at the next yield point, or when the thread reaches the drain barrier) */
static void script_release_locked(void)
{
	if(script_holding) {
		script_holding = 0;
		script_running = -1;
		pthread_cond_broadcast(&script_cv);
	}
}
static void script_finish(void)
{
	pthread_mutex_lock(&script_mu);
	script_finished[rid] = 1;
	script_release_locked();
	pthread_cond_broadcast(&script_cv);
	pthread_mutex_unlock(&script_mu);
}
static int script_present; /* threads that have reached their first yield point */
static __thread int script_seen;
static void script_arrive(void)
{
	pthread_mutex_lock(&script_mu);
	script_release_locked();
	if(!script_seen) {
		/* the model's initial state has every thread past its first loop test: no grant before all are */
		script_seen = 1;
		script_present++;
		pthread_cond_broadcast(&script_cv);
	}
	for(;;) {
		if(script_pos >= script_len) break; /* script exhausted: everybody runs freely */
		int who = cfg.sched[script_pos] - '0';
		if(script_running == -1 && script_present >= (int)global_config.n_threads) {
			if(who == (int)rid) {
				script_running = (int)rid;
				script_holding = 1;
				script_pos++;
				break;
			}
			if(who < 0 || who >= (int)cfg.n_threads || script_finished[who]) {
				script_pos++; /* a no-op in the model too */
				pthread_cond_broadcast(&script_cv);
				continue;
			}
		}
		pthread_cond_wait(&script_cv, &script_mu);
	}
	if(script_pos >= script_len) pthread_cond_broadcast(&script_cv);
	pthread_mutex_unlock(&script_mu);
}

void verif_yield(unsigned point)
{
	if(rid >= MAXT) return;
	struct ttrace *t = &tt[rid];
	if(point == VP_WORKER_FINI) {
		t->fini_seen = 1;
		return;
	}
	if(point == VP_BARRIER_ENTER && t->fini_seen && !t->left_valid) {
		/* first barrier of gvt_msg_drain: the worker loop and the flush loop are over;
		 * what is still in the real accumulator of this thread is never written */
		for(int i = 0; i < C_N; ++i)
			t->left[i] = stats_cur.s[c_stat[i]];
		t->left_valid = 1;
		if(cfg.mode == M_SCRIPT) script_finish();
		return;
	}
	if(cfg.mode == M_SCRIPT) {
		if((point == VP_WORKER_LOOP || point == VP_GVT_PHASE) && !t->left_valid)
			script_arrive();
		return;
	}
	if(point == VP_WORKER_LOOP && cfg.n_threads > 1 && rid == cfg.slow_rid)
		perturb(4, cfg.slow_us);
}

/* logical clock of the GVT module: one tick per call (only thread 0 reads it when idle, and the drain) */
uint_fast64_t verif_now(void)
{
	if(atomic_load(&clock_frozen))
		return ((uint_fast64_t)1 << 40) + atomic_load(&clock_ticks);
	return ((uint_fast64_t)1 << 40) + atomic_fetch_add(&clock_ticks, 1) + 1;
}

/* ------------------------------------------------------------------------------------------ */
/* the built-in model: one event in flight per LP, timestamps on a 0.25 grid (ties), zero-delay   */
/* hops with increasing event type, random destinations (stragglers across threads)              */
struct mstate {
	uint64_t cnt, h;
};
static inline uint64_t mix(uint64_t z)
{
	z = (z ^ (z >> 30)) * 0xbf58476d1ce4e5b9ULL;
	z = (z ^ (z >> 27)) * 0x94d049bb133111ebULL;
	return z ^ (z >> 31);
}
static void m_dispatch(lp_id_t me, simtime_t now, unsigned type, const void *pl, unsigned sz, void *st)
{
	struct mstate *s = st;
	(void)pl; (void)sz;
	if(type == LP_FINI) return;
	if(type == LP_INIT) {
		s = rs_malloc(sizeof(*s));
		s->cnt = 0;
		s->h = mix(me + 77 * cfg.pseed * 0);
		SetState(s);
		if(rid < MAXT) note_forward(&tt[rid]); /* common_msg_process counts the INIT event: no VK_FORWARD for it */
		if(cfg.mode == M_STOP_INIT && me == 0) {
			atomic_store(&clock_frozen, 1);
			RootsimStop();
		}
		ScheduleNewEvent(me, 0.25 * (double)(1 + me % 3), 3, NULL, 0);
		return;
	}
	s->cnt++;
	s->h = mix(s->h ^ me ^ dbl_bits(now) ^ type);
	if(cfg.mode == M_SCRIPT) {
		/* one LP per thread, one event in flight per LP, no cross-thread traffic: a batch is exactly 64 events */
		if(cfg.stop_batch && me == cfg.stop_thread && s->cnt == 64UL * (cfg.stop_batch - 1) + 1)
			RootsimStop();
		ScheduleNewEvent(me, now + 0.25 * (double)(1 + (s->h >> 20) % 4), 1, NULL, 0);
		return;
	}
	if(cfg.mode == M_STOP_MID && s->cnt == cfg.stop_at && me == cfg.n_lps - 1) {
		atomic_store(&clock_frozen, 1);
		atomic_store(&stop_called, 1);
		RootsimStop();
	}
	if(cfg.mode == M_DRYUP && s->cnt >= cfg.target)
		return; /* finite event chains, predicate never true: the run ends when nothing is left (last GVT = SIMTIME_MAX) */
	lp_id_t dest = (s->h >> 3) % 4 == 0 ? me : (s->h >> 8) % cfg.n_lps;
	unsigned k = (s->h >> 20) % 8; /* 0 => zero-delay hop: same timestamp, ordered AFTER the current event
	                                * by the tie-break of msg_is_before_extended (a smaller m_type comes later) */
	unsigned ty = 3;
	double d = 0.25 * k;
	if(k == 0) {
		if(type > 1) ty = type - 1;
		else d = 0.25;
	}
	uint64_t payload = s->h;
	ScheduleNewEvent(dest, now + d, ty, &payload, (s->h >> 30) % 2 ? sizeof(payload) : 0);
}
static bool m_committed(lp_id_t me, const void *st)
{
	(void)me;
	if(cfg.mode == M_PRED_AT_INIT) return true;
	if(cfg.mode == M_SCRIPT) return cfg.vote_mode == 1;
	if(cfg.mode != M_PRED) return false;
	return ((const struct mstate *)st)->cnt >= cfg.target;
}

/* ------------------------------------------------------------------------------------------ */
/* independent reader of the binary file: documented layout, hand-written little/big endian     */
struct sb {
	char *p;
	size_t len, cap;
};
static void sb_printf(struct sb *b, const char *fmt, ...)
{
	va_list ap;
	if(b->len + 64 > b->cap) {
		b->cap = b->cap ? b->cap * 2 : 1 << 16;
		b->p = realloc(b->p, b->cap);
	}
	va_start(ap, fmt);
	b->len += vsnprintf(b->p + b->len, 64, fmt, ap);
	va_end(ap);
}
struct rd {
	const unsigned char *p;
	size_t n, i;
	int be;
	const char *err;
};
static uint64_t rd_int(struct rd *r, unsigned w)
{
	if(r->err) return 0;
	if(r->n - r->i < w) {
		r->err = "truncated";
		return 0;
	}
	uint64_t v = 0;
	for(unsigned k = 0; k < w; ++k) {
		unsigned char byte = r->p[r->i + (r->be ? k : w - 1 - k)];
		v = (v << 8) | byte;
	}
	r->i += w;
	return v;
}
static uint64_t rd_cnt(struct rd *r, const char *what)
{
	uint64_t v = rd_int(r, 8);
	if(!r->err && v >> 63) r->err = what;
	return v;
}
/* parsed view, for the oracle */
struct pthread_recs {
	uint64_t n;
	uint64_t *v; /* n * s_cnt */
};
struct parsed {
	uint64_t s_cnt, n_nodes, t_cnt, n_rec;
	uint64_t glob[9];
	uint64_t *ngvt, *nrss;
	struct pthread_recs th[MAXT];
};
/* Renders "S be s_cnt names.. N n_cnt { G g0..g8 R n {gvt rss}* { T n {v*s_cnt}* }*t_cnt }*" or sets err */
static const char *render(const unsigned char *p, size_t n, struct sb *out, struct parsed *pa)
{
	struct rd r = {p, n, 0, 0, NULL};
	if(n < 2) return "truncated";
	if(p[0] == 0x0f && p[1] == 0xf0) r.be = 0;
	else if(p[0] == 0xf0 && p[1] == 0x0f) r.be = 1;
	else return "magic";
	r.i = 2;
	uint64_t s_cnt = rd_cnt(&r, "negative-count");
	if(r.err) return r.err;
	if(s_cnt == 0) return "no-metrics";
	sb_printf(out, "S %d %llu", r.be, (unsigned long long)s_cnt);
	for(uint64_t i = 0; i < s_cnt; ++i) {
		uint64_t l = rd_int(&r, 1);
		if(r.err) return r.err;
		if(r.n - r.i < l) return "truncated";
		sb_printf(out, " ");
		if(!l) sb_printf(out, "-");
		for(uint64_t k = 0; k < l; ++k)
			sb_printf(out, "%02x", p[r.i + k]);
		r.i += l;
	}
	uint64_t n_cnt = rd_cnt(&r, "negative-count");
	if(r.err) return r.err;
	sb_printf(out, " N %llu", (unsigned long long)n_cnt);
	pa->s_cnt = s_cnt;
	pa->n_nodes = n_cnt;
	for(uint64_t nd = 0; nd < n_cnt; ++nd) {
		uint64_t g[9];
		for(int k = 0; k < 9; ++k)
			g[k] = rd_int(&r, 8);
		if(r.err) return r.err;
		sb_printf(out, " G");
		for(int k = 0; k < 9; ++k)
			sb_printf(out, " %llu", (unsigned long long)g[k]);
		uint64_t n_siz = rd_cnt(&r, "negative-count");
		if(r.err) return r.err;
		if(n_siz % 16) return "node-size";
		sb_printf(out, " R %llu", (unsigned long long)(n_siz / 16));
		int keep = nd == 0 && n_siz <= n;
		if(nd == 0) {
			memcpy(pa->glob, g, sizeof(g));
			pa->t_cnt = g[0];
			pa->n_rec = n_siz / 16;
		}
		if(keep) {
			pa->ngvt = malloc(n_siz / 16 * 8 + 8);
			pa->nrss = malloc(n_siz / 16 * 8 + 8);
		}
		for(uint64_t k = 0; k < n_siz / 16; ++k) {
			uint64_t gv = rd_int(&r, 8), rss = rd_int(&r, 8);
			if(r.err) return r.err;
			sb_printf(out, " %llx %llu", (unsigned long long)gv, (unsigned long long)rss);
			if(keep) {
				pa->ngvt[k] = gv;
				pa->nrss[k] = rss;
			}
		}
		for(uint64_t t = 0; t < g[0]; ++t) {
			uint64_t t_siz = rd_cnt(&r, "negative-count");
			if(r.err) return r.err;
			if(t_siz % (8 * s_cnt)) return "thread-size";
			uint64_t nr = t_siz / (8 * s_cnt);
			sb_printf(out, " T %llu", (unsigned long long)nr);
			uint64_t *store = NULL;
			if(nd == 0 && t < MAXT && t_siz <= n) {
				pa->th[t].n = nr;
				store = pa->th[t].v = malloc(t_siz + 8);
			}
			for(uint64_t k = 0; k < nr * s_cnt; ++k) {
				uint64_t v = rd_int(&r, 8);
				if(r.err) return r.err;
				sb_printf(out, " %llu", (unsigned long long)v);
				if(store) store[k] = v;
			}
		}
	}
	if(r.i != n) return "garbage";
	return NULL;
}

/* ------------------------------------------------------------------------------------------ */
static FILE *f_ops, *f_c, *f_or, *f_runs, *f_sum;
static unsigned long ops_lines;
static int tree_fix6; /* the observed variant: 1 = the flush loop of gvt_msg_drain records, 0 = drops, -1 = probe failed */

static void emit_layout(void)
{
	/* sizeof/offsetof facts of the REAL headers; the model prints its constants in the same format */
	fprintf(f_ops, "layout\n");
	ops_lines++;
	uint16_t magic = 61455U;
	unsigned char mb[2];
	memcpy(mb, &magic, 2);
	fprintf(f_c,
	    "layout magic=%u host_be=%d s_cnt=%d thread_rec=%zu node_rec=%zu node_gvt_off=%zu node_rss_off=%zu glob=%zu "
	    "glob_threads_off=%zu glob_lps_off=%zu glob_maxrss_off=%zu glob_ts_off=%zu n_ts=%d cnt_w=%zu idx=%d,%d,%d,%d,%d,%d,%d,%d,%d,%d,%d,%d "
	    "ts_idx=%d,%d,%d,%d,%d,%d names=",
	    61455U, mb[0] == 0xf0, STATS_COUNT, sizeof(struct stats_thread), sizeof(struct stats_node),
	    offsetof(struct stats_node, gvt), offsetof(struct stats_node, rss), sizeof(struct stats_global),
	    offsetof(struct stats_global, threads_count), offsetof(struct stats_global, lps_count),
	    offsetof(struct stats_global, max_rss), offsetof(struct stats_global, timestamps), STATS_GLOBAL_COUNT,
	    sizeof(int64_t), STATS_MSG_PROCESSED, STATS_MSG_PROCESSED_TIME, STATS_ROLLBACK, STATS_RECOVERY_TIME,
	    STATS_MSG_ROLLBACK, STATS_CKPT, STATS_CKPT_TIME, STATS_CKPT_SIZE, STATS_MSG_SILENT, STATS_MSG_SILENT_TIME,
	    STATS_MSG_ANTI, STATS_REAL_TIME_GVT, STATS_GLOBAL_INIT_END, STATS_GLOBAL_EVENTS_START,
	    STATS_GLOBAL_EVENTS_END, STATS_GLOBAL_FINI_START, STATS_GLOBAL_END, STATS_GLOBAL_HR_TOTAL);
	for(int i = 0; i < STATS_COUNT; ++i) {
		if(i) fputc(',', f_c);
		fput_hex(f_c, (const unsigned char *)stats_names[i], strlen(stats_names[i]));
	}
	fputc('\n', f_c);
}

static unsigned char *slurp(const char *path, size_t *n)
{
	FILE *f = fopen(path, "rb");
	if(!f) return NULL;
	fseek(f, 0, SEEK_END);
	long l = ftell(f);
	fseek(f, 0, SEEK_SET);
	unsigned char *b = malloc(l + 1);
	if(l && fread(b, l, 1, f) != 1) {
		fclose(f);
		free(b);
		return NULL;
	}
	fclose(f);
	*n = l;
	return b;
}

#define ORACLE(...) do { fprintf(f_or, __VA_ARGS__); n_or++; } while(0)

/* everything after the run: executed in the child, appends to the shared output files */
static void post_run(unsigned run, const char *bin_path)
{
	unsigned long n_or = 0;
	size_t n = 0;
	unsigned char *bytes = slurp(bin_path, &n);
	if(!bytes) {
		ORACLE("NOFILE run=%u mode=%s threads=%u\n", run, mode_names[cfg.mode], cfg.n_threads);
		fprintf(f_sum, "%u nofile\n", run);
		return;
	}
	struct sb out = {0};
	struct parsed pa;
	memset(&pa, 0, sizeof(pa));
	const char *err = render(bytes, n, &out, &pa);

	/* (K) decode: bytes -> Lean decode, canonical rendering vs the independent reader */
	fprintf(f_runs, "%u %s %lu %u %s\n", run, bin_path, ops_lines + 1, cfg.n_threads, mode_names[cfg.mode]);
	fprintf(f_ops, "decode ");
	fput_hex(f_ops, bytes, n);
	fputc('\n', f_ops);
	ops_lines++;
	if(err) fprintf(f_c, "bad %s\n", err);
	else fprintf(f_c, "%s\n", out.p);
	if(err) {
		ORACLE("PARSE run=%u reason=%s\n", run, err);
		fprintf(f_sum, "%u parsefail\n", run);
		return;
	}
	/* (K) encode: the canonical rendering -> Lean encode must give back the file */
	fprintf(f_ops, "encode %s\n", out.p);
	ops_lines++;
	fput_hex(f_c, bytes, n);
	fputc('\n', f_c);

	/* ---- S oracle: the property itself on the produced file ---- */
	unsigned nt = global_config.n_threads; /* after a possible reduction by lp_global_init */
	if(pa.s_cnt != STATS_COUNT) ORACLE("SCNT run=%u s_cnt=%llu\n", run, (unsigned long long)pa.s_cnt);
	if(pa.n_nodes != 1) ORACLE("NODES run=%u n=%llu\n", run, (unsigned long long)pa.n_nodes);
	if(pa.t_cnt != nt) ORACLE("TCNT run=%u file=%llu real=%u\n", run, (unsigned long long)pa.t_cnt, nt);
	if(pa.glob[1] != cfg.n_lps) ORACLE("LPS run=%u file=%llu real=%u\n", run, (unsigned long long)pa.glob[1], cfg.n_lps);
	int mismatch = 0;
	for(unsigned t = 0; t < nt && t < MAXT; ++t)
		if(pa.th[t].n != pa.n_rec) mismatch = 1;
	if(mismatch) {
		fprintf(f_or, "RECCOUNT run=%u mode=%s threads=%u node=%llu", run, mode_names[cfg.mode], nt,
		    (unsigned long long)pa.n_rec);
		for(unsigned t = 0; t < nt && t < MAXT; ++t)
			fprintf(f_or, " t%u=%llu", t, (unsigned long long)pa.th[t].n);
		fprintf(f_or, " traced_gvts=");
		for(unsigned t = 0; t < nt && t < MAXT; ++t)
			fprintf(f_or, "%s%lu", t ? "," : "", tt[t].n_gvt);
		fprintf(f_or, " flush_gvts=");
		for(unsigned t = 0; t < nt && t < MAXT; ++t)
			fprintf(f_or, "%s%lu", t ? "," : "", tt[t].n_flush);
		fprintf(f_or, " fix6=%d", tree_fix6);
		fputc('\n', f_or);
		n_or++;
	}
	for(uint64_t k = 1; k < pa.n_rec; ++k) /* non-negative finite doubles: order of bit patterns = numeric order */
		if(pa.ngvt[k] < pa.ngvt[k - 1] || bits_dbl(pa.ngvt[k]) < bits_dbl(pa.ngvt[k - 1]))
			ORACLE("GVTORDER run=%u k=%llu prev=%llx cur=%llx\n", run, (unsigned long long)k,
			    (unsigned long long)pa.ngvt[k - 1], (unsigned long long)pa.ngvt[k]);
	unsigned long tot[C_N] = {0};
	unsigned long rec_total = 0, flush_total = 0;
	for(unsigned t = 0; t < nt && t < MAXT; ++t) {
		struct ttrace *x = &tt[t];
		tr_flush_unit(x);
		/* number of records written by this thread = number of GVT values it was handed in the loop */
		if(pa.th[t].n != x->n_gvt)
			ORACLE("NREC run=%u thread=%u file=%llu traced=%lu\n", run, t, (unsigned long long)pa.th[t].n, x->n_gvt);
		/* node records are written by thread 0 */
		if(t == 0)
			for(uint64_t k = 0; k < pa.n_rec && k < x->n_gvt && k < MAXREC; ++k)
				if(pa.ngvt[k] != x->gvt[k])
					ORACLE("GVTVAL run=%u k=%llu file=%llx traced=%llx\n", run, (unsigned long long)k,
					    (unsigned long long)pa.ngvt[k], (unsigned long long)x->gvt[k]);
		uint64_t cum_f = 0, cum_u = 0;
		for(uint64_t k = 0; k < pa.th[t].n; ++k) {
			const uint64_t *v = pa.th[t].v + k * pa.s_cnt;
			rec_total++;
			for(int c = 0; c < C_N; ++c) {
				tot[c] += v[c_stat[c]];
				/* exact accounting: file counter = what the trace hook saw in that period */
				if(k < x->n_gvt && k < MAXREC && v[c_stat[c]] != x->per[k][c])
					ORACLE("ACCT run=%u thread=%u rec=%llu counter=%d file=%llu traced=%llu\n", run, t,
					    (unsigned long long)k, c, (unsigned long long)v[c_stat[c]],
					    (unsigned long long)x->per[k][c]);
			}
			cum_f += v[STATS_MSG_PROCESSED];
			cum_u += v[STATS_MSG_ROLLBACK];
			if(cum_u > cum_f)
				ORACLE("UNDONE run=%u thread=%u rec=%llu cum_undone=%llu cum_forward=%llu\n", run, t,
				    (unsigned long long)k, (unsigned long long)cum_u, (unsigned long long)cum_f);
		}
		if(x->n_stray || x->n_lost || x->gvt_pending)
			ORACLE("STATSCALLS run=%u thread=%u stray=%lu lost=%lu pending=%d\n", run, t, x->n_stray, x->n_lost,
			    x->gvt_pending);
		flush_total += x->n_flush;
		if(x->hist_viol) ORACLE("HISTORY run=%u thread=%u violations=%lu\n", run, t, x->hist_viol);
		if(!x->left_valid) ORACLE("NOFINI run=%u thread=%u\n", run, t);
		for(int c = 0; c < C_N; ++c)
			if(x->left_valid && x->left[c] != x->cur[c])
				ORACLE("LEFTOVER run=%u thread=%u counter=%d real=%llu traced=%llu\n", run, t, c,
				    (unsigned long long)x->left[c], (unsigned long long)x->cur[c]);

		/* (K) accounting: the traced step sequence through the Lean step model vs the file records + real leftover */
		fprintf(f_ops, "acct %d%s\n", t == 0, x->buf ? x->buf : "");
		ops_lines++;
		fprintf(f_c, "ok %llu", (unsigned long long)pa.th[t].n);
		for(uint64_t k = 0; k < pa.th[t].n; ++k) {
			const uint64_t *v = pa.th[t].v + k * pa.s_cnt;
			fprintf(f_c, " %llu,%llu,%llu,%llu,%llu,%llu", (unsigned long long)v[c_stat[0]],
			    (unsigned long long)v[c_stat[1]], (unsigned long long)v[c_stat[2]],
			    (unsigned long long)v[c_stat[3]], (unsigned long long)v[c_stat[4]],
			    (unsigned long long)v[c_stat[5]]);
		}
		fprintf(f_c, " left %llu,%llu,%llu,%llu,%llu,%llu", (unsigned long long)x->left[0],
		    (unsigned long long)x->left[1], (unsigned long long)x->left[2], (unsigned long long)x->left[3],
		    (unsigned long long)x->left[4], (unsigned long long)x->left[5]);
		if(t == 0) {
			fprintf(f_c, " gvts");
			for(uint64_t k = 0; k < pa.n_rec; ++k)
				fprintf(f_c, " %llx", (unsigned long long)pa.ngvt[k]);
		}
		fputc('\n', f_c);
	}
	/* (K) schedule lock-step: the model's prediction of every thread's record count for this schedule */
	if(cfg.mode == M_SCRIPT) {
		fprintf(f_ops, "%s\n", cfg.f6line);
		ops_lines++;
		fprintf(f_c, "done");
		for(unsigned t = 0; t < nt && t < MAXT; ++t)
			fprintf(f_c, " %llu", (unsigned long long)pa.th[t].n);
		fputc('\n', f_c);
	}
	/* (K) decode of damaged files: both readers must reject (or accept) alike, with the same reason */
	unsigned long n_corrupt = 0;
	if(n > 40) {
		/* where the size fields are (little-endian host): n_siz and the first t_siz */
		size_t off_nsiz = 2 + 8;
		for(int i = 0; i < STATS_COUNT; ++i)
			off_nsiz += 1 + strlen(stats_names[i]);
		off_nsiz += 8 + sizeof(struct stats_global);
		size_t off_tsiz = off_nsiz + 8 + pa.n_rec * sizeof(struct stats_node);
		for(int k = 0; k < 9; ++k) {
			size_t m = n;
			unsigned char *cp = malloc(n + 8);
			memcpy(cp, bytes, n);
			uint64_t rr = mix(cfg.pseed + run * 977 + k);
			switch(k) {
				case 0: m = rr % n; break;                          /* truncated anywhere */
				case 1: cp[n] = (unsigned char)rr; m = n + 1; break; /* garbage at the end */
				case 2: cp[rr % 2] ^= 1 << (rr >> 8) % 8; break;    /* magic */
				case 3: cp[2 + rr % 8] ^= 1 << (rr >> 8) % 8; break; /* s_cnt */
				case 4: cp[rr % n] ^= 1 << (rr >> 8) % 8; break;    /* any bit */
				case 5: m = n - 1 - rr % 16; break;                  /* truncated near the end */
				case 6: cp[off_nsiz] ^= 1 << rr % 4; break;          /* node array size not a multiple of 16 */
				case 7: if(off_tsiz < n) cp[off_tsiz] ^= 1 << rr % 6; break; /* thread array size not a multiple of 96 */
				default: memset(cp + 2, 0, 8); break;                /* no metrics */
			}
			struct sb o2 = {0};
			struct parsed p2;
			memset(&p2, 0, sizeof(p2));
			const char *e2 = render(cp, m, &o2, &p2);
			fprintf(f_ops, "decode ");
			fput_hex(f_ops, cp, m);
			fputc('\n', f_ops);
			ops_lines++;
			if(e2) fprintf(f_c, "bad %s\n", e2);
			else fprintf(f_c, "%s\n", o2.p);
			n_corrupt++;
			free(cp);
		}
	}
	fprintf(f_sum, "%u ok mode=%u threads=%u nrec=%llu recs=%lu fwd=%lu rb=%lu undo=%lu ckpt=%lu sil=%lu anti=%lu mismatch=%d oracle=%lu bytes=%zu corrupt=%lu flush=%lu\n",
	    run, cfg.mode, nt, (unsigned long long)pa.n_rec, rec_total, tot[0], tot[1], tot[2], tot[3], tot[4], tot[5],
	    mismatch, n_or, n, n_corrupt, flush_total);
}

static void child_run(unsigned run, const char *outdir)
{
	char base[512], bin[520];
	snprintf(base, sizeof(base), "%s/r%u", outdir, run);
	snprintf(bin, sizeof(bin), "%s.bin", base); /* stats_global_fini appends ".bin" */
	unlink(bin);
	for(unsigned t = 0; t < MAXT; ++t) {
		tt[t].per = calloc(MAXREC, sizeof(*tt[t].per));
		tt[t].gvt = calloc(MAXREC, sizeof(*tt[t].gvt));
	}
	struct simulation_configuration conf = {
	    .lps = cfg.n_lps,
	    .n_threads = cfg.n_threads,
	    .termination_time = cfg.mode == M_TERMTIME ? cfg.term_time : 0,
	    .gvt_period = cfg.gvt_period,
	    .log_level = LOG_SILENT,
	    .stats_file = base,
	    .ckpt_interval = cfg.ckpt,
	    .prng_seed = cfg.pseed,
	    .core_binding = false,
	    .serial = false,
	    .dispatcher = m_dispatch,
	    .committed = m_committed,
	};
	script_len = cfg.mode == M_SCRIPT ? (int)strlen(cfg.sched) : 0;
	if(RootsimInit(&conf)) _exit(3);
	if(RootsimRun()) _exit(4);
	{ /* tell the supervisor that the simulation itself returned: what follows cannot hang */
		char mk[540];
		snprintf(mk, sizeof(mk), "%s.done", base);
		FILE *m = fopen(mk, "w");
		if(m) fclose(m);
	}
	post_run(run, bin);
	fflush(NULL);
	_exit(0);
}

static void pick_cfg(unsigned run, int tier)
{
	memset(&cfg, 0, sizeof(cfg));
	/* a fixed prefix guarantees every kind of run in every seed; the rest is random */
	static const unsigned fixed_mode[] = {M_STOP_INIT, M_PRED_AT_INIT, M_PRED, M_PRED, M_TERMTIME, M_STOP_MID,
	    M_PRED, M_STOP_INIT, M_PRED_AT_INIT, M_TERMTIME, M_STOP_MID, M_PRED, M_DRYUP, M_DRYUP};
	static const unsigned fixed_thr[] = {1, 1, 1, 2, 1, 1, 2, 2, 2, 2, 2, 1, 1, 2};
	unsigned nfix = sizeof(fixed_mode) / sizeof(*fixed_mode);
	if(run < nfix) {
		cfg.mode = fixed_mode[run];
		cfg.n_threads = fixed_thr[run];
	} else {
		unsigned r = vrng_below(20);
		cfg.mode = r < 8 ? M_PRED : r < 12 ? M_TERMTIME : r < 14 ? M_STOP_INIT : r < 17 ? M_STOP_MID : r < 18 ? M_DRYUP : M_PRED_AT_INIT;
		unsigned q = vrng_below(10);
		cfg.n_threads = q < 5 ? 1 : 2;
		if(tier && q >= 8) cfg.n_threads = 3 + vrng_below(2);
	}
	cfg.n_lps = cfg.n_threads * (1 + vrng_below(4)) + vrng_below(2);
	static const unsigned CK[] = {0, 1, 2, 3, 7, 50};
	cfg.ckpt = CK[vrng_below(6)];
	static const unsigned GP[] = {0, 0, 1, 3, 20, 200, 2000};
	cfg.gvt_period = GP[vrng_below(7)];
	cfg.target = 20 + vrng_below(vrng_below(3) ? 400 : (tier ? 30000 : 6000));
	cfg.term_time = 5.0 + (double)vrng_below(vrng_below(3) ? 60 : (tier ? 6000 : 1200));
	cfg.stop_at = 5 + vrng_below(200);
	cfg.slow_rid = vrng_below(cfg.n_threads);
	cfg.slow_us = 5 + vrng_below(60);
	if(run == 11) { /* many GVT rounds: back-to-back rounds (period 0 on the harness clock), long run */
		cfg.gvt_period = 0;
		cfg.n_lps = 2;
		cfg.target = tier ? 200000 : 40000;
	}
}

/* "f6 n period stopThread stopBatch voteMode schedule" */
static int parse_f6(const char *line)
{
	memset(&cfg, 0, sizeof(cfg));
	cfg.mode = M_SCRIPT;
	if(sscanf(line, "f6 %u %u %u %u %u %4095s", &cfg.n_threads, &cfg.gvt_period, &cfg.stop_thread, &cfg.stop_batch,
	       &cfg.vote_mode, cfg.sched) != 6)
		return -1;
	if(cfg.n_threads < 1 || cfg.n_threads > MAXT) return -1;
	snprintf(cfg.f6line, sizeof(cfg.f6line), "%s", line);
	cfg.f6line[strcspn(cfg.f6line, "\r\n")] = 0;
	cfg.n_lps = cfg.n_threads;
	cfg.ckpt = 8;
	return 0;
}

/* random yield-point schedules for the loop model (the check keeps those the model says terminate) */
static void gen_scripts(unsigned n, FILE *f)
{
	for(unsigned i = 0; i < n; ++i) {
		unsigned nt = 2 + (vrng_below(4) == 0);
		static const unsigned P[] = {0, 0, 0, 1, 3, 7};
		unsigned period = P[vrng_below(6)];
		unsigned vote = vrng_below(3) == 0;
		unsigned st = vrng_below(nt), sb = vote && vrng_below(2) ? 0 : 1 + vrng_below(vrng_below(3) ? 45 : 160);
		unsigned len = 500 + vrng_below(vrng_below(3) ? 900 : 3400);
		fprintf(f, "f6 %u %u %u %u %u ", nt, period, st, sb, vote);
		unsigned cur = vrng_below(nt), left = 0, style = vrng_below(3);
		for(unsigned k = 0; k < len; ++k) {
			if(!left) {
				cur = style == 0 ? (cur + 1) % nt : vrng_below(nt);
				left = style == 2 ? 1 + vrng_below(6) : 1 + vrng_below(2);
			}
			left--;
			fputc('0' + cur, f);
		}
		fputc('\n', f);
	}
}

static unsigned long count_lines(const char *path)
{
	FILE *f = xfopen(path, "r");
	unsigned long l = 0;
	int ch;
	while((ch = fgetc(f)) != EOF)
		l += ch == '\n';
	fclose(f);
	return l;
}

static unsigned long hangs, crashes, gave_up;
/* one configured run in a child process, with timeout and retries; returns 1 if it completed */
static int supervised_run(unsigned run, const char *outdir, unsigned max_attempts)
{
	char path[512];
	snprintf(path, sizeof(path), "%s/ops", outdir);
	for(unsigned attempt = 0; attempt < max_attempts; ++attempt) {
		cfg.pseed = vrng() | 1;
		fflush(NULL);
		{
			char mk[600];
			snprintf(mk, sizeof(mk), "%s/r%u.done", outdir, run);
			unlink(mk);
		}
		pid_t pid = fork();
		if(pid < 0) exit(2);
		if(pid == 0) child_run(run, outdir);
		/* wait with a timeout: multi-thread runs of the unchanged tree may hang at shutdown (F1) */
		int status = 0;
		unsigned waited_ms = 0, limit_ms = cfg.mode == M_SCRIPT ? 60000 : cfg.n_threads > 1 ? 2000 : 30000;
		for(;;) {
			pid_t w = waitpid(pid, &status, WNOHANG);
			if(w == pid) break;
			if(waited_ms >= limit_ms && waited_ms < 120000) {
				char mk[600];
				snprintf(mk, sizeof(mk), "%s/r%u.done", outdir, run);
				if(!access(mk, F_OK)) { /* only the post-processing is slow */
					usleep(1000);
					waited_ms++;
					continue;
				}
			}
			if(waited_ms >= limit_ms) {
				kill(pid, SIGKILL);
				waitpid(pid, &status, 0);
				status = -1;
				break;
			}
			usleep(1000);
			waited_ms++;
		}
		if(status == -1) {
			hangs++;
			continue;
		}
		ops_lines = count_lines(path); /* the child appended ops lines */
		if(!WIFEXITED(status) || WEXITSTATUS(status)) {
			crashes++;
			fprintf(f_or, "CRASH run=%u mode=%s threads=%u status=%d\n", run, mode_names[cfg.mode], cfg.n_threads,
			    status);
			fflush(f_or);
		}
		return 1;
	}
	gave_up++;
	return 0;
}

static void open_outputs(const char *outdir, char *sum_path, size_t sum_len)
{
	char path[600];
	snprintf(path, sizeof(path), "%s/ops", outdir);
	f_ops = xfopen(path, "a");
	snprintf(path, sizeof(path), "%s/c", outdir);
	f_c = xfopen(path, "a");
	snprintf(path, sizeof(path), "%s/oracle", outdir);
	f_or = xfopen(path, "a");
	snprintf(path, sizeof(path), "%s/runs", outdir);
	f_runs = xfopen(path, "a");
	snprintf(sum_path, sum_len, "%s/summary", outdir);
	f_sum = xfopen(sum_path, "a");
}
static void close_outputs(void)
{
	fclose(f_ops); fclose(f_c); fclose(f_or); fclose(f_runs); fclose(f_sum);
}

/* Which flush loop does this tree have? Replays the first schedule of the script file (the F6 witness: under it
 * one thread receives a completed round's value in the flush loop of gvt_msg_drain while the other records it in
 * its worker loop) on the real threads, in a scratch directory, and compares the record counts in the produced file:
 * equal => the flush loop records (repaired), unequal => it drops (pinned), no result => -1. */
static int probe_variant(const char *script_file, const char *dir)
{
	static char line[4500];
	char sum_path[600], path[600];
	FILE *sf = fopen(script_file, "r");
	if(!sf) return -1;
	int ok = fgets(line, sizeof(line), sf) && !parse_f6(line);
	fclose(sf);
	if(!ok) return -1;
	mkdir(dir, 0777);
	open_outputs(dir, sum_path, sizeof(sum_path));
	unsigned long h0 = hangs, c0 = crashes, g0 = gave_up;
	int done = supervised_run(0, dir, 2);
	close_outputs();
	hangs = h0; crashes = c0; gave_up = g0;
	ops_lines = 0;
	if(!done) return -1;
	/* the C side of the run's `f6` line: "done <records of thread 0> <records of thread 1> ..." */
	snprintf(path, sizeof(path), "%s/c", dir);
	FILE *f = fopen(path, "r");
	if(!f) return -1;
	int res = -1;
	static char cl[1 << 16];
	while(fgets(cl, sizeof(cl), f)) {
		if(strncmp(cl, "done", 4)) { /* long lines (hex dumps): skip to their end */
			while(!strchr(cl, '\n') && fgets(cl, sizeof(cl), f)) {}
			continue;
		}
		unsigned long v[MAXT];
		int n = sscanf(cl, "done %lu %lu %lu %lu", &v[0], &v[1], &v[2], &v[3]);
		if(n < 2) continue;
		res = 1;
		for(int i = 1; i < n; ++i)
			if(v[i] != v[0]) res = 0;
	}
	fclose(f);
	return res;
}

int main(int argc, char **argv)
{
	if(argc >= 5 && !strcmp(argv[1], "gen")) { /* hc20 gen <seed> <n> <file> */
		vrng_state = strtoull(argv[2], NULL, 0) ^ 0x5c20;
		FILE *f = xfopen(argv[4], "w");
		gen_scripts(atoi(argv[3]), f);
		fclose(f);
		return 0;
	}
	if(argc >= 4 && !strcmp(argv[1], "probe")) { /* hc20 probe <script file> <dir> */
		vrng_state = 0x5c20;
		printf("{\"fix6\":%d}\n", probe_variant(argv[2], argv[3]));
		return 0;
	}
	if(argc < 4) return 2;
	uint64_t seed = strtoull(argv[1], NULL, 0);
	int tier = atoi(argv[2]);
	const char *outdir = argv[3];
	const char *script_file = argc > 4 ? argv[4] : NULL;
	vrng_state = seed;
	char sum_path[600];
	/* observe the variant of the tree first: the driver must know it before the first `f6` line */
	tree_fix6 = 0;
	if(script_file) {
		char pdir[600];
		snprintf(pdir, sizeof(pdir), "%s/probe", outdir);
		tree_fix6 = probe_variant(script_file, pdir);
		vrng_state = seed; /* the probe drew perturbation seeds */
	}
	open_outputs(outdir, sum_path, sizeof(sum_path));
	fprintf(f_ops, "variant %d\n", tree_fix6 == 1);
	fprintf(f_c, "ok\n");
	ops_lines++;
	if(tree_fix6 < 0) {
		fprintf(f_or, "PROBE failed: the F6 witness schedule did not complete on the real threads\n");
		tree_fix6 = 0;
	}

	emit_layout();
	fflush(NULL);

	const char *only = getenv("HC20_MODE"); /* debugging aid: restrict to one mode */
	unsigned n_runs = tier ? 300 : 48;
	if(getenv("HC20_RUNS")) n_runs = atoi(getenv("HC20_RUNS"));
	unsigned run = 0;
	for(; run < n_runs; ++run) {
		pick_cfg(run, tier);
		if(only && strcmp(only, mode_names[cfg.mode])) continue;
		if(getenv("HC20_THREADS")) cfg.n_threads = atoi(getenv("HC20_THREADS"));
		supervised_run(run, outdir, 5);
	}
	/* replay of model schedules on the real code */
	unsigned long scripts = 0, scripts_hung = 0;
	if(script_file) {
		FILE *sf = xfopen(script_file, "r");
		static char line[4500];
		while(fgets(line, sizeof(line), sf)) {
			if(parse_f6(line)) continue;
			scripts++;
			if(!supervised_run(run, outdir, 2)) {
				/* the model says this schedule terminates: a hang is a divergence */
				scripts_hung++;
				fprintf(f_ops, "%s\n", cfg.f6line);
				fprintf(f_c, "hang\n");
				fflush(NULL);
				ops_lines++;
			}
			run++;
		}
		fclose(sf);
	}
	close_outputs();

	/* aggregate the per-run summaries */
	FILE *f = xfopen(sum_path, "r");
	char line[1024];
	unsigned long runs_ok = 0, recs = 0, tot[6] = {0}, mism = 0, by_mode[M_COUNT] = {0}, by_thr[MAXT + 1] = {0};
	unsigned long zero_rounds = 0, one_round = 0, many_rounds = 0, max_rounds = 0, bytes = 0, oracle = 0, corrupt = 0;
	unsigned long flush_recs = 0, flush_runs = 0;
	while(fgets(line, sizeof(line), f)) {
		unsigned r_, mode, thr;
		unsigned long long nrec;
		unsigned long r, a[6], o, co, fl;
		int mm;
		size_t by;
		if(sscanf(line, "%u ok mode=%u threads=%u nrec=%llu recs=%lu fwd=%lu rb=%lu undo=%lu ckpt=%lu sil=%lu anti=%lu mismatch=%d oracle=%lu bytes=%zu corrupt=%lu flush=%lu",
		       &r_, &mode, &thr, &nrec, &r, &a[0], &a[1], &a[2], &a[3], &a[4], &a[5], &mm, &o, &by, &co, &fl) != 16)
			continue;
		runs_ok++;
		recs += r;
		for(int i = 0; i < 6; ++i)
			tot[i] += a[i];
		mism += mm;
		if(mode < M_COUNT) by_mode[mode]++;
		by_thr[thr <= MAXT ? thr : MAXT]++;
		zero_rounds += nrec == 0;
		one_round += nrec == 1;
		many_rounds += nrec > 1;
		if(nrec > max_rounds) max_rounds = nrec;
		bytes += by;
		oracle += o;
		corrupt += co;
		flush_recs += fl;
		flush_runs += fl != 0;
	}
	fclose(f);
	printf("{\"runs\":%lu,\"thread_records\":%lu,\"forward\":%lu,\"rollbacks\":%lu,\"undone\":%lu,\"ckpts\":%lu,"
	       "\"silent\":%lu,\"antis\":%lu,\"record_count_mismatch_runs\":%lu,\"zero_round_runs\":%lu,"
	       "\"one_round_runs\":%lu,\"many_round_runs\":%lu,\"max_rounds\":%lu,\"file_bytes\":%lu,"
	       "\"corrupted_decodes\":%lu,\"scripted_runs\":%lu,\"scripted_hung\":%lu,"
	       "\"hang_retries\":%lu,\"crashes\":%lu,\"gave_up\":%lu,\"oracle_lines\":%lu,"
	       "\"by_mode\":{\"pred\":%lu,\"termtime\":%lu,\"stop_init\":%lu,\"stop_mid\":%lu,\"script\":%lu,\"pred_at_init\":%lu,\"dryup\":%lu},"
	       "\"by_threads\":{\"1\":%lu,\"2\":%lu,\"3\":%lu,\"4\":%lu},"
	       "\"fix6\":%d,\"flush_loop_records\":%lu,\"runs_with_flush_loop_records\":%lu}\n",
	    runs_ok, recs, tot[0], tot[1], tot[2], tot[3], tot[4], tot[5], mism, zero_rounds, one_round, many_rounds,
	    max_rounds, bytes, corrupt, scripts, scripts_hung, hangs, crashes, gave_up, oracle, by_mode[0], by_mode[1],
	    by_mode[2], by_mode[3], by_mode[4], by_mode[5], by_mode[6], by_thr[1], by_thr[2], by_thr[3], by_thr[4],
	    tree_fix6, flush_recs, flush_runs);
	return 0;
}
