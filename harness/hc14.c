/* C14 harness: LP placement and routing — the REAL macros `partition_start`, `lid_to_nid`,
 * `lid_to_rid` and the REAL `lp_global_init`, `lp_init`, `lp_fini` of src/lp/lp.c (included below).
 *
 * usage: hc14 <seed> <tier: 0 quick | 1 thorough> <ops_out> <c_out> <oracle_out>
 *  ops_out    : protocol lines for `driver place`
 *                 node[u]   lps n t k            -> lid_node_first n_lps_node n_threads(after clamp)
 *                 thread[u] first m t r          -> lid_thread_first lid_thread_end
 *                 route[u]  lps n first m t lp   -> lid_to_nid(lp) lid_to_rid(lp)
 *                 workers   lps n t k            -> ranges of the workers of rank k | err:noThreads
 *                 owner     lps n t lp           -> (rank, thread) that the routing pipeline computes for lp
 *  c_out      : results of the C code for the same lines
 *  oracle_out : S oracle — C14 evaluated directly on the implementation, one line per failure:
 *                 "<kind> lps=<L> n=<N> t=<T> <details>"
 *
 * Two modes per (lps, ranks, threads) triple:
 *  FULL (lps <= FULL_MAX): for every rank the real lp_global_init(), for every started thread the
 *     real lp_init()/lp_fini(); their callees are stubbed and record WHICH LP ids are initialised /
 *     finalised and by whom; every LP is routed with the real macros.
 *  WRAP (bigger): only the macros, through wrappers that use them textually as lp.c does; sampled
 *     ranks, threads, LPs. */
#include "vcommon.h"
#include "stubs_min.h"
#include <signal.h>
#include <unistd.h>
#include <lp/lp.c> /* real code */

/* ---------------------------------------------------------------- stubs of the callees of lp_init/lp_fini */
static uint8_t *init_cnt, *fini_cnt; /* per LP id: how many times random_lib_lp_init / process_lp_fini saw it */
static uint16_t *own_k, *own_r;      /* per LP id: (rank, thread) that initialised it */
static uint64_t rec_cap;
static unsigned long n_out_of_range_init;
static uint64_t cur_L;

static struct rng_ctx dummy_rng;
void model_allocator_lp_init(struct mm_state *self) { (void)self; }
void model_allocator_lp_fini(struct mm_state *self) { (void)self; }
void *rs_malloc(size_t s) { (void)s; return &dummy_rng; }
void auto_ckpt_lp_init(struct auto_ckpt *a) { (void)a; }
void process_lp_init(struct lp_ctx *lp) { (void)lp; }
void termination_lp_init(struct lp_ctx *lp) { (void)lp; }
void random_lib_lp_init(lp_id_t lp_id, struct rng_ctx *r)
{
	(void)r;
	if(lp_id >= cur_L) {
		n_out_of_range_init++;
		return;
	}
	if(init_cnt[lp_id] < 255) init_cnt[lp_id]++;
	own_k[lp_id] = (uint16_t)nid;
	own_r[lp_id] = (uint16_t)rid;
}
void process_lp_fini(struct lp_ctx *lp)
{
	uint64_t i = (uint64_t)(lp - lps);
	if(i >= cur_L) {
		n_out_of_range_init++;
		return;
	}
	if(fini_cnt[i] < 255) fini_cnt[i]++;
}

/* ---------------------------------------------------------------- wrappers: the macros used textually as in lp.c */
static uint64_t w_node_first(void) { return partition_start(nid, n_nodes, lid_to_nid, 0, global_config.lps); }
static uint64_t w_node_end(void) { return partition_start(nid + 1, n_nodes, lid_to_nid, 0, global_config.lps); }
static uint64_t w_thread_first(void)
{
	return partition_start(rid, global_config.n_threads, lid_to_rid, lid_node_first, n_lps_node);
}
static uint64_t w_thread_end(void)
{
	return partition_start(rid + 1, global_config.n_threads, lid_to_rid, lid_node_first, n_lps_node);
}
static nid_t w_nid(lp_id_t lp) { return lid_to_nid(lp); }
static rid_t w_rid(lp_id_t lp) { return lid_to_rid(lp); }
/* lp_global_init without the allocation (WRAP mode only): same three statements */
static void w_global_init(void)
{
	lid_node_first = w_node_first();
	n_lps_node = w_node_end() - lid_node_first;
	if(n_lps_node < global_config.n_threads)
		global_config.n_threads = n_lps_node;
}

/* ---------------------------------------------------------------- output */
static FILE *f_ops, *f_c, *f_or;
static unsigned long n_lines, n_triples, n_full, n_wrap, n_viol, n_f9, n_routes, n_node, n_thread, n_lp_checked,
    n_uneven, n_clamped, n_lps_lt_n, n_lps_lt_t, n_one_lp, n_boundary, n_wrapcases, n_nonlocal, n_owner;
static uint64_t cur_N, cur_T;
static const char *cur_stage = "start";

static void viol(const char *kind, const char *fmt, ...)
{
	va_list ap;
	n_viol++;
	if(n_viol > 200) return;
	fprintf(f_or, "%s lps=%llu n=%llu t=%llu ", kind, (unsigned long long)cur_L, (unsigned long long)cur_N,
	    (unsigned long long)cur_T);
	va_start(ap, fmt);
	vfprintf(f_or, fmt, ap);
	va_end(ap);
	fputc('\n', f_or);
}

/* F9: one line per triple (the first rank found without LPs); counted apart from the violations */
static unsigned long n_f9_triples, f9_last_triple;
static void report_f9(uint64_t k, uint64_t m, unsigned tc)
{
	if(f9_last_triple == n_triples) return;
	f9_last_triple = n_triples;
	n_f9_triples++;
	if(n_f9_triples > 50) return;
	fprintf(f_or, "rank-without-lps lps=%llu n=%llu t=%llu k=%llu n_lps_node=%llu n_threads=%u\n",
	    (unsigned long long)cur_L, (unsigned long long)cur_N, (unsigned long long)cur_T, (unsigned long long)k,
	    (unsigned long long)m, tc);
}

static void on_alarm(int sig)
{
	(void)sig;
	/* a partition_start loop that does not come back: report the current input */
	fprintf(f_or, "hang lps=%llu n=%llu t=%llu stage=%s nid=%d rid=%u\n", (unsigned long long)cur_L,
	    (unsigned long long)cur_N, (unsigned long long)cur_T, cur_stage, nid, rid);
	fflush(f_or);
	fflush(f_ops);
	fflush(f_c);
	_exit(3);
}

/* in the domain where u64_faithful holds, both model variants must agree with C */
static bool in_nat_domain(uint64_t L, uint64_t N) { return N && L <= UINT64_MAX / N; }

static void emit_node(bool nat, uint64_t L, uint64_t N, uint64_t T, uint64_t k, uint64_t first, uint64_t m, unsigned tc)
{
	for(int u = nat ? 0 : 1; u < 2; ++u) {
		fprintf(f_ops, "node%s %llu %llu %llu %llu\n", u ? "u" : "", (unsigned long long)L, (unsigned long long)N,
		    (unsigned long long)T, (unsigned long long)k);
		fprintf(f_c, "%llu %llu %u\n", (unsigned long long)first, (unsigned long long)m, tc);
		n_lines++;
	}
	n_node++;
}

static void emit_thread(bool nat, uint64_t first, uint64_t m, unsigned tc, unsigned r, uint64_t tf, uint64_t te)
{
	for(int u = nat ? 0 : 1; u < 2; ++u) {
		fprintf(f_ops, "thread%s %llu %llu %u %u\n", u ? "u" : "", (unsigned long long)first, (unsigned long long)m, tc,
		    r);
		fprintf(f_c, "%llu %llu\n", (unsigned long long)tf, (unsigned long long)te);
		n_lines++;
	}
	n_thread++;
}

/* globals of the rank (lid_node_first, n_lps_node, n_threads) must be set */
static void emit_route(bool nat, uint64_t L, uint64_t N, uint64_t lp)
{
	int a = w_nid(lp);
	unsigned b = w_rid(lp);
	for(int u = nat ? 0 : 1; u < 2; ++u) {
		fprintf(f_ops, "route%s %llu %llu %llu %llu %u %llu\n", u ? "u" : "", (unsigned long long)L,
		    (unsigned long long)N, (unsigned long long)lid_node_first, (unsigned long long)n_lps_node,
		    global_config.n_threads, (unsigned long long)lp);
		fprintf(f_c, "%d %u\n", a, b);
		n_lines++;
	}
	n_routes++;
}

static void classify(uint64_t L, uint64_t N, uint64_t T)
{
	alarm(20); /* watchdog per triple: a partition_start loop that does not return is reported by on_alarm */
	n_triples++;
	n_uneven += (L % N != 0) || ((L / N) % T != 0);
	n_lps_lt_n += L < N;
	n_lps_lt_t += L < T;
	n_one_lp += L == 1;
}

/* ---------------------------------------------------------------- FULL mode */
#define FULL_MAX 65536u
static void full_case(uint64_t L, uint64_t N, uint64_t T, bool all_routes)
{
	cur_L = L; cur_N = N; cur_T = T;
	classify(L, N, T);
	n_full++;
	if(L > rec_cap) abort();
	memset(init_cnt, 0, L);
	memset(fini_cnt, 0, L);
	uint64_t expect_first = 0;
	bool nat = in_nat_domain(L, N);
	for(uint64_t k = 0; k < N; ++k) {
		global_config.lps = L;
		global_config.n_threads = (unsigned)T;
		n_nodes = (nid_t)N;
		nid = (nid_t)k;
		cur_stage = "lp_global_init";
		lp_global_init(); /* REAL */
		uint64_t first = lid_node_first, m = n_lps_node;
		unsigned tc = global_config.n_threads;
		emit_node(nat, L, N, T, k, first, m, tc);
		n_clamped += tc < T;
		/* S: node ranges are contiguous, start at 0 */
		if(first != expect_first) viol("node-gap", "k=%llu first=%llu expected=%llu", (unsigned long long)k,
		    (unsigned long long)first, (unsigned long long)expect_first);
		expect_first = first + m;
		if(tc == 0) {
			/* parallel_simulation: `thrs[0]`, `while(i--)` starts nothing: this rank never runs lp_init and never
			 * reaches mpi_node_barrier (F9) */
			fprintf(f_ops, "workers %llu %llu %llu %llu\n", (unsigned long long)L, (unsigned long long)N,
			    (unsigned long long)T, (unsigned long long)k);
			fprintf(f_c, "err:noThreads\n");
			n_lines++;
			n_f9++;
			report_f9(k, m, tc);
			lp_global_fini();
			continue;
		}
		/* S: no idle thread when the rank hosts at least as many LPs as requested threads; after the clamp never */
		uint64_t expect_tf = first;
		static char wbuf[64 * 48];
		size_t wlen = 0;
		for(unsigned r = 0; r < tc; ++r) {
			rid = r;
			cur_stage = "lp_init";
			lp_init(); /* REAL: loops over [lid_thread_first, lid_thread_end), stubs record the ids */
			uint64_t tf = lid_thread_first, te = lid_thread_end;
			wlen += (size_t)snprintf(wbuf + wlen, sizeof(wbuf) - wlen, "%s%llu-%llu", r ? " " : "", (unsigned long long)tf,
			    (unsigned long long)te);
			emit_thread(nat, first, m, tc, r, tf, te);
			if(tf != expect_tf) viol("thread-gap", "k=%llu r=%u first=%llu expected=%llu", (unsigned long long)k, r,
			    (unsigned long long)tf, (unsigned long long)expect_tf);
			if(te <= tf) viol("idle-thread", "k=%llu r=%u range=%llu-%llu n_lps_node=%llu n_threads=%u",
			    (unsigned long long)k, r, (unsigned long long)tf, (unsigned long long)te, (unsigned long long)m, tc);
			expect_tf = te;
			cur_stage = "lp_fini";
			lp_fini(); /* REAL */
		}
		if(nat) {
			fprintf(f_ops, "workers %llu %llu %llu %llu\n", (unsigned long long)L, (unsigned long long)N,
			    (unsigned long long)T, (unsigned long long)k);
			fprintf(f_c, "%s\n", wbuf);
			n_lines++;
		}
		if(expect_tf != first + m) viol("thread-cover", "k=%llu end=%llu expected=%llu", (unsigned long long)k,
		    (unsigned long long)expect_tf, (unsigned long long)(first + m));
		if(m >= T && tc != T) viol("clamp", "k=%llu n_lps_node=%llu n_threads=%u", (unsigned long long)k,
		    (unsigned long long)m, tc);
		/* S: routing of every local LP = the (rank, thread) whose lp_init initialised it */
		cur_stage = "route";
		for(uint64_t lp = first; lp < first + m && lp < L; ++lp) {
			int a = w_nid(lp);
			unsigned b = w_rid(lp);
			n_lp_checked++;
			if(init_cnt[lp] != 1 || a != own_k[lp] || b != own_r[lp] || (uint64_t)a != k)
				viol("route-not-owner", "lp=%llu routed=(%d,%u) initialised=%u by=(%u,%u) on_rank=%llu",
				    (unsigned long long)lp, a, b, init_cnt[lp], own_k[lp], own_r[lp], (unsigned long long)k);
			if(all_routes || lp == first || lp + 1 == first + m || !vrng_below(16)) {
				emit_route(nat, L, N, lp);
				if(nat) { /* the routing pipeline as a whole: lid_to_nid, then lid_to_rid on that rank */
					fprintf(f_ops, "owner %llu %llu %llu %llu\n", (unsigned long long)L, (unsigned long long)N,
					    (unsigned long long)T, (unsigned long long)lp);
					fprintf(f_c, "%d %u\n", a, b);
					n_lines++;
					n_owner++;
				}
			}
		}
		/* a few LPs of OTHER ranks: lid_to_nid must say "not mine"; lid_to_rid of them only through the U64 model */
		for(int j = 0; j < 2 && m < L; ++j) {
			uint64_t lp = vrng_below(L);
			if(lp >= first && lp < first + m) continue;
			if(w_nid(lp) == (int)k) viol("route-foreign", "lp=%llu routed to rank %llu which does not host it",
			    (unsigned long long)lp, (unsigned long long)k);
			emit_route(false, L, N, lp);
			n_nonlocal++;
		}
		cur_stage = "lp_global_fini";
		lp_global_fini(); /* REAL */
	}
	/* S: the node ranges cover [0, lps) and every LP id was initialised and finalised exactly once */
	if(expect_first != L) viol("node-cover", "end=%llu", (unsigned long long)expect_first);
	if(n_out_of_range_init) {
		viol("init-out-of-range", "count=%lu", n_out_of_range_init);
		n_out_of_range_init = 0;
	}
	for(uint64_t lp = 0; lp < L; ++lp) {
		bool hosted_by_started_rank = init_cnt[lp] >= 1;
		if(init_cnt[lp] != 1 || fini_cnt[lp] != 1) {
			/* when a rank has no LPs nothing is lost on the arithmetic side; anything else is a violation */
			viol("init-count", "lp=%llu init=%u fini=%u", (unsigned long long)lp, init_cnt[lp], fini_cnt[lp]);
			(void)hosted_by_started_rank;
			break;
		}
	}
}

/* ---------------------------------------------------------------- WRAP mode */
static void set_rank(uint64_t L, uint64_t N, uint64_t T, uint64_t k)
{
	global_config.lps = L;
	global_config.n_threads = (unsigned)T;
	n_nodes = (nid_t)N;
	nid = (nid_t)k;
	cur_stage = "w_global_init";
	w_global_init();
}

/* S on one LP: routed (rank, thread) owns it */
static void check_lp(uint64_t L, uint64_t N, uint64_t T, uint64_t lp, bool emit)
{
	bool nat = in_nat_domain(L, N);
	global_config.lps = L;
	n_nodes = (nid_t)N;
	cur_stage = "lid_to_nid";
	int a = w_nid(lp);
	n_lp_checked++;
	if(a < 0 || (uint64_t)a >= N) {
		viol("route-range", "lp=%llu nid=%d", (unsigned long long)lp, a);
		return;
	}
	set_rank(L, N, T, (uint64_t)a);
	if(!(lid_node_first <= lp && lp - lid_node_first < n_lps_node)) {
		viol("route-not-owner", "lp=%llu routed to rank %d owning %llu+%llu", (unsigned long long)lp, a,
		    (unsigned long long)lid_node_first, (unsigned long long)n_lps_node);
		return;
	}
	cur_stage = "lid_to_rid";
	unsigned b = w_rid(lp);
	if(b >= global_config.n_threads) {
		viol("route-range", "lp=%llu rid=%u n_threads=%u", (unsigned long long)lp, b, global_config.n_threads);
		return;
	}
	rid = b;
	cur_stage = "w_thread";
	uint64_t tf = w_thread_first(), te = w_thread_end();
	if(!(tf <= lp && lp < te))
		viol("route-not-owner", "lp=%llu routed=(%d,%u) thread range %llu-%llu", (unsigned long long)lp, a, b,
		    (unsigned long long)tf, (unsigned long long)te);
	if(emit) {
		if(nat) {
			fprintf(f_ops, "owner %llu %llu %llu %llu\n", (unsigned long long)L, (unsigned long long)N,
			    (unsigned long long)T, (unsigned long long)lp);
			fprintf(f_c, "%d %u\n", a, b);
			n_lines++;
			n_owner++;
		}
		emit_route(nat, L, N, lp);
		emit_thread(nat, lid_node_first, n_lps_node, global_config.n_threads, b, tf, te);
	}
}

static void wrap_case(uint64_t L, uint64_t N, uint64_t T, unsigned n_ranks, unsigned n_thr, unsigned n_lp_s,
    unsigned n_lp_emit)
{
	cur_L = L; cur_N = N; cur_T = T;
	classify(L, N, T);
	n_wrap++;
	bool nat = in_nat_domain(L, N);
	for(unsigned j = 0; j < n_ranks; ++j) {
		uint64_t k = j == 0 ? 0 : j == 1 ? N - 1 : vrng_below(N);
		set_rank(L, N, T, k);
		uint64_t first = lid_node_first, m = n_lps_node;
		unsigned tc = global_config.n_threads;
		emit_node(nat, L, N, T, k, first, m, tc);
		n_clamped += tc < T;
		if(k == 0 && first != 0) viol("node-gap", "k=0 first=%llu", (unsigned long long)first);
		if(k == N - 1 && first + m != L) viol("node-cover", "end=%llu", (unsigned long long)(first + m));
		if(k + 1 < N) { /* S: contiguous with the next rank */
			set_rank(L, N, T, k + 1);
			if(lid_node_first != first + m) viol("node-gap", "k=%llu end=%llu next=%llu", (unsigned long long)k,
			    (unsigned long long)(first + m), (unsigned long long)lid_node_first);
			set_rank(L, N, T, k);
		}
		if(tc == 0) {
			n_f9++;
			report_f9(k, m, tc);
			continue;
		}
		uint64_t prev_te = 0;
		unsigned prev_r = UINT32_MAX;
		for(unsigned i = 0; i < n_thr; ++i) {
			unsigned r = i == 0 ? 0 : i == 1 ? tc - 1 : i == 2 && prev_r + 1 < tc ? prev_r + 1 : (unsigned)vrng_below(tc);
			rid = r;
			cur_stage = "w_thread";
			uint64_t tf = w_thread_first(), te = w_thread_end();
			emit_thread(nat, first, m, tc, r, tf, te);
			if(r == 0 && tf != first) viol("thread-gap", "k=%llu r=0 first=%llu", (unsigned long long)k,
			    (unsigned long long)tf);
			if(r == tc - 1 && te != first + m) viol("thread-cover", "k=%llu end=%llu", (unsigned long long)k,
			    (unsigned long long)te);
			if(prev_r != UINT32_MAX && r == prev_r + 1 && tf != prev_te) viol("thread-gap", "k=%llu r=%u first=%llu expected=%llu",
			    (unsigned long long)k, r, (unsigned long long)tf, (unsigned long long)prev_te);
			if(te <= tf) viol("idle-thread", "k=%llu r=%u range=%llu-%llu n_lps_node=%llu n_threads=%u",
			    (unsigned long long)k, r, (unsigned long long)tf, (unsigned long long)te, (unsigned long long)m, tc);
			prev_r = r;
			prev_te = te;
			/* the two ends of the range are routed here */
			if(te > tf) {
				emit_route(nat, L, N, tf);
				emit_route(nat, L, N, te - 1);
				if(w_nid(tf) != (int)k || w_rid(tf) != r || w_nid(te - 1) != (int)k || w_rid(te - 1) != r)
					viol("route-not-owner", "k=%llu r=%u range=%llu-%llu routed first=(%d,%u) last=(%d,%u)",
					    (unsigned long long)k, r, (unsigned long long)tf, (unsigned long long)te, w_nid(tf), w_rid(tf),
					    w_nid(te - 1), w_rid(te - 1));
			}
		}
	}
	for(unsigned i = 0; i < n_lp_s; ++i)
		check_lp(L, N, T, vrng_below(L), i < n_lp_emit);
}

/* ---------------------------------------------------------------- generators */
static uint64_t gen_lps(uint64_t max, uint64_t N, uint64_t T)
{
	uint64_t L;
	switch(vrng_below(8)) {
		case 0: L = 1 + vrng_below(max); break;                         /* uniform */
		case 1: L = (1ULL << vrng_below(21)) + vrng_below(3) - 1; break; /* 2^j - 1, 2^j, 2^j + 1 */
		case 2: L = N * (1 + vrng_below(max / N)) + vrng_below(3) - 1; break; /* around a multiple of the ranks */
		case 3: L = N * T * (1 + vrng_below(max / (N * T))) + vrng_below(3) - 1; break;
		case 4: L = 1 + vrng_below(N); break;                           /* fewer LPs than ranks (F9) or equal */
		case 5: L = N + vrng_below(N * T); break;                       /* fewer LPs than threads on some rank */
		case 6: L = 1 + vrng_below(200); break;
		default: L = 1 + vrng_below(1ULL << (1 + vrng_below(20))); break; /* log-uniform */
	}
	if(L == 0) L = 1;
	if(L > max) L = max;
	return L;
}

int main(int argc, char **argv)
{
	if(argc < 6) return 2;
	vrng_state = strtoull(argv[1], NULL, 0);
	int thorough = atoi(argv[2]);
	f_ops = xfopen(argv[3], "w");
	f_c = xfopen(argv[4], "w");
	f_or = xfopen(argv[5], "w");
	signal(SIGALRM, on_alarm);

	rec_cap = FULL_MAX;
	init_cnt = malloc(rec_cap);
	fini_cnt = malloc(rec_cap);
	own_k = malloc(rec_cap * sizeof(*own_k));
	own_r = malloc(rec_cap * sizeof(*own_r));

	/* (1) exhaustive small: every (lps, ranks, threads) in 1..40 x 1..8 x 1..8, every rank, thread and LP */
	for(uint64_t L = 1; L <= 40; ++L)
		for(uint64_t N = 1; N <= 8; ++N)
			for(uint64_t T = 1; T <= 8; ++T)
				full_case(L, N, T, true);
	unsigned long exhaustive_triples = n_triples;

	/* (2) random triples up to 2^20 LPs, 64 ranks, 64 threads */
	unsigned long n_rand = thorough ? 100000 : 3000;
	for(unsigned long i = 0; i < n_rand; ++i) {
		uint64_t N = 1 + (vrng_below(3) ? vrng_below(8) : vrng_below(64));
		uint64_t T = 1 + (vrng_below(3) ? vrng_below(8) : vrng_below(64));
		uint64_t L = gen_lps(1ULL << 20, N, T);
		if(L <= (thorough ? 4096u : 512u) && vrng_below(4))
			full_case(L, N, T, false);
		else if(L <= FULL_MAX && !vrng_below(thorough ? 64 : 256))
			full_case(L, N, T, false);
		else
			wrap_case(L, N, T, 3, 3, thorough ? (i % 16 ? 100 : 1000) : 50, 3);
	}

	/* (3) boundaries of the integer types, inside the stated domain lps * n_nodes < 2^64,
	 *     n_lps_node * n_threads < 2^64 (see Props/C14 u64_faithful) */
	static const struct { uint64_t L, N, T; } B[] = {
	    {(1ULL << 32) - 1, 1, 1}, {1ULL << 32, 1, 64}, {(1ULL << 32) + 1, 3, 7}, {(1ULL << 32) - 1, 64, 64},
	    {(1ULL << 32) + 1, 64, 63}, {(1ULL << 31) - 1, 2, 2}, {(1ULL << 31) + 1, 5, 3}, {(1ULL << 33) + 7, 64, 64},
	    {(1ULL << 63) - 1, 2, 1}, {(1ULL << 63) - 1, 1, 2}, {(1ULL << 63) - 1, 2, 2}, {(1ULL << 63), 1, 1},
	    {(1ULL << 62) + 1, 3, 3}, {(1ULL << 62) - 1, 4, 4}, {UINT64_MAX, 1, 1}, {UINT64_MAX / 64, 64, 1},
	    {UINT64_MAX / 63, 63, 7}, {(1ULL << 58) - 1, 64, 63}, {(1ULL << 57) + 12345, 100, 64}, {1ULL << 40, 1000, 64},
	    {(1ULL << 48) + 1, 65535, 64}, {(1ULL << 33) - 1, 2147483647ULL, 3}, {2147483647ULL, 2147483647ULL, 2},
	    {4294967296ULL, 2147483647ULL, 1},
	};
	for(unsigned i = 0; i < sizeof(B) / sizeof(*B); ++i) {
		uint64_t L = B[i].L, N = B[i].N, T = B[i].T;
		/* n_lps_node * n_threads < 2^64 holds when (L / N + 1) * T does not overflow */
		if(!in_nat_domain(L, N) || (L / N) >= UINT64_MAX / T) continue;
		n_boundary++;
		wrap_case(L, N, T, 4, 4, 200, 6);
	}
	/* random boundary-near triples inside the domain */
	unsigned long n_bnd = thorough ? 5000 : 300;
	for(unsigned long i = 0; i < n_bnd; ++i) {
		uint64_t N = 1 + vrng_below(vrng_below(2) ? 64 : 4096);
		uint64_t T = 1 + vrng_below(64);
		unsigned e = vrng_below(2) ? 31 + (unsigned)vrng_below(3) : 56 + (unsigned)vrng_below(8);
		uint64_t L = (1ULL << e) + vrng_below(5) - 2;
		if(vrng_below(3) == 0) L = UINT64_MAX / N - vrng_below(3);
		if(!in_nat_domain(L, N) || (L / N) >= UINT64_MAX / T) continue;
		n_boundary++;
		wrap_case(L, N, T, 3, 3, 20, 2);
	}

	/* (4) OUTSIDE the domain: wrap-around cases whose loops are known to stop quickly — fixed-width model only.
	 * lps = 2^63, 4 ranks: 4 * lp wraps for lp >= 2^62. Only expressions that terminate are evaluated
	 * (partition_start(2, 4, …) never returns: theorem u64_wrap_nonterm). */
	{
		uint64_t L = 1ULL << 63, N = 4;
		alarm(20);
		cur_L = L; cur_N = N; cur_T = 1;
		global_config.lps = L;
		n_nodes = (nid_t)N;
		global_config.n_threads = 1;
		lid_node_first = 0;
		n_lps_node = 1ULL << 61;
		static const uint64_t W[] = {1ULL << 62, (1ULL << 62) + 5, (1ULL << 63) - 1, (1ULL << 61), (1ULL << 61) - 1, 3ULL << 61};
		for(unsigned i = 0; i < sizeof(W) / sizeof(*W); ++i) {
			emit_route(false, L, N, W[i]);
			n_wrapcases++;
		}
		nid = 0;
		cur_stage = "wrapcase";
		uint64_t a = w_node_first(), b = w_node_end();
		fprintf(f_ops, "nodeu %llu %llu 1 0\n", (unsigned long long)L, (unsigned long long)N);
		fprintf(f_c, "%llu %llu 1\n", (unsigned long long)a, (unsigned long long)(b - a));
		n_lines++;
		n_wrapcases++;
		/* S (documenting the domain): outside it, routing and ownership do disagree */
		if(w_nid(1ULL << 62) == 0 && !((1ULL << 62) < b)) n_wrapcases++;
	}

	alarm(0);
	fprintf(stdout,
	    "{\"lines\":%lu,\"triples\":%lu,\"exhaustive_triples\":%lu,\"full\":%lu,\"wrap\":%lu,\"node_ops\":%lu,"
	    "\"thread_ops\":%lu,\"route_ops\":%lu,\"owner_ops\":%lu,\"lps_checked_by_oracle\":%lu,\"uneven_triples\":%lu,"
	    "\"clamped_ranks\":%lu,\"lps_lt_ranks\":%lu,\"lps_lt_threads\":%lu,\"one_lp\":%lu,\"boundary_triples\":%lu,"
	    "\"wrap_around_ops\":%lu,\"nonlocal_routes\":%lu,\"ranks_without_lps\":%lu,\"triples_with_rank_without_lps\":%lu,\"violations\":%lu}\n",
	    n_lines, n_triples, exhaustive_triples, n_full, n_wrap, n_node, n_thread, n_routes, n_owner, n_lp_checked, n_uneven,
	    n_clamped, n_lps_lt_n, n_lps_lt_t, n_one_lp, n_boundary, n_wrapcases, n_nonlocal, n_f9, n_f9_triples, n_viol);
	fclose(f_ops); fclose(f_c); fclose(f_or);
	return 0;
}
