/* C07 harness: the REAL src/gvt/termination.c (included into this TU so that its static
 * thread-locals are reachable) driven by generated operation sequences.
 * usage: hc07 <seed> <n_scenarios> <ops_out> <c_out> <oracle_out>
 *  ops_out    : one protocol line per operation (fed to the Lean driver, mode `term` / `termfix`)
 *  c_out      : the C results for the same lines
 *  oracle_out : S oracle — the property itself evaluated with a shadow ledger that is independent of
 *               the Lean model: at every vote, every LP of the voting thread must have its predicate true
 *               on a not-undone history entry with time stamp < gvt (or at init), or gvt >= termination_time.
 *
 * "Threads" are virtual: the two `static __thread` variables of termination.c are swapped in/out by the
 * harness when it switches the virtual thread, so one OS thread can play several worker threads.
 */
#include "vcommon.h"
#include <core/core.h>
#include <log/log.h>
#include <stdarg.h>

struct simulation_configuration global_config;
lp_id_t n_lps_node;
__thread rid_t rid;
nid_t n_nodes = 1;
nid_t nid;
void vlogger(enum log_level level, char *file, unsigned line, const char *fmt, ...)
{
	(void)level; (void)file; (void)line; (void)fmt;
}
void verif_yield(unsigned point) { (void)point; }
static unsigned long n_vote_hooks;
void verif_trace(unsigned kind, uint64_t a, uint64_t b, uint64_t c);

#include <gvt/termination.c> /* the code under test */
#include <distributed/no_mpi.c> /* real single-node control message path */
#include <distributed/control_msg.c>

void verif_trace(unsigned kind, uint64_t a, uint64_t b, uint64_t c)
{
	(void)a; (void)b; (void)c;
	n_vote_hooks += kind == VK_TERM_VOTE;
}

struct lp_ctx *lps;
void gvt_start_processing(void) {}
void gvt_on_done_ctrl_msg(void) {}
void gvt_on_closed_ctrl_msg(void) {} /* exists only in trees carrying the F1 repair */

/* ---------------------------------------------------------------- scripted predicate */
static bool scripted_term;
static unsigned long n_committed_calls;
static bool h_committed(lp_id_t me, const void *snapshot)
{
	(void)me; (void)snapshot;
	n_committed_calls++;
	return scripted_term;
}

/* ---------------------------------------------------------------- virtual threads */
#define MAXT 3
#define MAXLP 3
#define MAXH 64
static uint64_t sv_lps_to_end[MAXT];
static simtime_t sv_max_t[MAXT];
static int cur_vt = -1;
static void vswitch(int t)
{
	if(cur_vt >= 0) {
		sv_lps_to_end[cur_vt] = lps_to_end;
		sv_max_t[cur_vt] = max_t;
	}
	lps_to_end = sv_lps_to_end[t];
	max_t = sv_max_t[t];
	cur_vt = t;
	rid = t;
}

/* ---------------------------------------------------------------- shadow ledger (oracle) */
struct ent { double t; bool pred; };
struct sh_lp {
	bool init_held;
	int n;
	struct ent h[MAXH];
	int mode;
	double thr;
};
static struct sh_lp sh[MAXT][MAXLP];
static int nlp[MAXT], NT;
static double last_g[MAXT];
static bool ts0_seen[MAXT];
static bool has_voted[MAXT], tt_hit, ext_stop, end_reported;
static double ttime;

static FILE *f_ops, *f_c, *f_or;
static unsigned long n_scen, n_ops, n_votes, n_premature, n_rb, n_rb_tie_kept, n_rb_tie_undone, n_proc, n_proc0,
    n_init_true, n_gvt, n_bcast, n_stop;
static unsigned long line_no;

static void put_termt(FILE *f, double x)
{
	if(x < 0)
		fprintf(f, "%d", (int)x);
	else
		fprintf(f, "%llx", (unsigned long long)dbl_bits(x));
}

static void out_thread(int th, int lp)
{
	put_termt(f_c, lps[th * MAXLP + lp].termination_t);
	fprintf(f_c, " %llu %llx\n", (unsigned long long)lps_to_end, (unsigned long long)dbl_bits(max_t));
}

static bool held_below(const struct sh_lp *l, double g)
{
	if(l->init_held)
		return true;
	for(int i = 0; i < l->n; ++i)
		if(l->h[i].pred && l->h[i].t < g)
			return true;
	return false;
}

static int scen_first_line;

static void op_init(int th, bool term)
{
	int lp = nlp[th]++;
	vswitch(th);
	scripted_term = term;
	fprintf(f_ops, "init %d %d\n", th, term);
	termination_lp_init(&lps[th * MAXLP + lp]);
	out_thread(th, lp);
	sh[th][lp].init_held = term;
	sh[th][lp].n = 0;
	n_init_true += term;
	line_no++; n_ops++;
}

static void op_proc(int th, int lp, double t, bool term)
{
	vswitch(th);
	scripted_term = term;
	fprintf(f_ops, "proc %d %d %llx %d\n", th, lp, (unsigned long long)dbl_bits(t), term);
	termination_on_msg_process(&lps[th * MAXLP + lp], t);
	out_thread(th, lp);
	struct sh_lp *l = &sh[th][lp];
	if(l->n < MAXH) {
		l->h[l->n].t = t;
		l->h[l->n].pred = term;
		l->n++;
	}
	if(t == 0.0)
		ts0_seen[th] = true;
	n_proc++; n_proc0 += t == 0.0;
	line_no++; n_ops++;
}

static void op_rb(int th, int lp, double s, int k)
{
	vswitch(th);
	fprintf(f_ops, "rb %d %d %llx %d\n", th, lp, (unsigned long long)dbl_bits(s), k);
	termination_on_lp_rollback(&lps[th * MAXLP + lp], s);
	out_thread(th, lp);
	sh[th][lp].n = k;
	if(s == 0.0)
		ts0_seen[th] = true;
	n_rb++;
	line_no++; n_ops++;
}

static void op_gvt(int th, double g)
{
	vswitch(th);
	unsigned before = atomic_load(&thr_to_end);
	fprintf(f_ops, "gvt %d %llx\n", th, (unsigned long long)dbl_bits(g));
	termination_on_gvt(g);
	unsigned after = atomic_load(&thr_to_end);
	bool voted = before != after;
	fprintf(f_c, "%d %u %d %llx\n", voted, after, (int)atomic_load(&nodes_to_end),
	    (unsigned long long)dbl_bits(max_t));
	last_g[th] = g;
	n_gvt++;
	line_no++; n_ops++;
	if(!voted)
		return;
	n_votes++;
	n_bcast += before == 1;
	has_voted[th] = true;
	tt_hit |= g >= ttime;
	/* S oracle, node level: the run may end only after every thread voted (or the termination time was reached,
	 * or RootsimStop / a remote termination message intervened) */
	if(atomic_load(&nodes_to_end) <= 0 && !tt_hit && !ext_stop && !end_reported) {
		for(int t = 0; t < NT; ++t)
			if(!has_voted[t]) {
				end_reported = true;
				fprintf(f_or, "EARLYEND scen=%lu th=%d lp=-1 g=%llx cause=thread-not-voted lines=%d-%lu ends_run=1\n",
				    n_scen, t, (unsigned long long)dbl_bits(g), scen_first_line, line_no);
				break;
			}
	}
	/* S oracle: the statement of C07 at the moment of the vote */
	if(g >= ttime)
		return;
	for(int lp = 0; lp < nlp[th]; ++lp)
		if(!held_below(&sh[th][lp], g)) {
			n_premature++;
			fprintf(f_or, "PREMATURE scen=%lu th=%d lp=%d g=%llx cause=%s lines=%d-%lu ends_run=%d\n", n_scen, th, lp,
			    (unsigned long long)dbl_bits(g), ts0_seen[th] ? "ts0" : "other", scen_first_line, line_no,
			    atomic_load(&nodes_to_end) <= 0);
			break;
		}
}

static void op_stop(void)
{
	fprintf(f_ops, "stop\n");
	RootsimStop();
	ext_stop = true;
	fprintf(f_c, "%d %d\n", (int)atomic_load(&nodes_to_end), termination_cant_end());
	n_stop++;
	line_no++; n_ops++;
}

static void op_ctrl(void)
{
	fprintf(f_ops, "ctrl\n");
	control_msg_process(MSG_CTRL_TERMINATION);
	ext_stop = true;
	fprintf(f_c, "%d %d\n", (int)atomic_load(&nodes_to_end), termination_cant_end());
	line_no++; n_ops++;
}

static void scen_begin(int nt, double tt)
{
	NT = nt;
	ttime = tt;
	n_scen++;
	scen_first_line = (int)line_no + 1;
	fprintf(f_ops, "cfg %d 1 %llx\n", nt, (unsigned long long)dbl_bits(tt));
	fprintf(f_c, "ok\n");
	line_no++;
	global_config.n_threads = nt;
	global_config.termination_time = tt;
	global_config.serial = false;
	global_config.committed = h_committed;
	cur_vt = -1;
	for(int t = 0; t < MAXT; ++t) {
		sv_lps_to_end[t] = 0;
		sv_max_t[t] = 0;
		nlp[t] = 0;
		last_g[t] = 0;
		ts0_seen[t] = false;
		has_voted[t] = false;
	}
	tt_hit = ext_stop = end_reported = false;
	lps_to_end = 0;
	max_t = 0;
	termination_global_init();
}

#define GRID 16
static double grid(int i) { return 0.5 * i; }

static bool pred_of(struct sh_lp *l, double t)
{
	switch(l->mode) {
		case 0: return vrng_below(2);       /* true at init, arbitrary afterwards */
		case 1: return true;                /* true from the first event on (possibly at time stamp 0) */
		case 2: return vrng_below(2);       /* flips arbitrarily, also after a rollback */
		case 3: return t >= l->thr;         /* true from a threshold time on */
		default: return false;              /* never */
	}
}

static void random_scenario(void)
{
	int nt = 1 + (int)vrng_below(MAXT);
	double tt = vrng_below(3) ? SIMTIME_MAX : grid(4 + (int)vrng_below(8));
	scen_begin(nt, tt);
	for(int th = 0; th < nt; ++th) {
		int n = 1 + (int)vrng_below(MAXLP);
		for(int lp = 0; lp < n; ++lp) {
			struct sh_lp *l = &sh[th][lp];
			l->mode = (int)vrng_below(5);
			l->thr = grid((int)vrng_below(8));
			op_init(th, l->mode == 0);
		}
	}
	int steps = 8 + (int)vrng_below(40);
	bool zero_bias = !vrng_below(3); /* scenarios that dwell at time stamp 0 */
	for(int i = 0; i < steps; ++i) {
		int th = (int)vrng_below(nt), lp = (int)vrng_below(nlp[th]);
		struct sh_lp *l = &sh[th][lp];
		unsigned k = (unsigned)vrng_below(100);
		if(k < 58) {
			double base = last_g[th];
			if(l->n && l->h[l->n - 1].t > base)
				base = l->h[l->n - 1].t;
			double t = base + 0.5 * (double)(zero_bias && base == 0.0 ? vrng_below(2) : vrng_below(3));
			if(l->n >= MAXH - 1)
				continue;
			op_proc(th, lp, t, pred_of(l, t));
		} else if(k < 78) {
			/* rollback: straggler / anti-message time s >= last gvt; undone entries have t >= s,
			 * kept entries t <= s; entries with t == s are split at a random point */
			int lo = 0;
			while(lo < l->n && l->h[lo].t < last_g[th])
				lo++;
			if(lo >= l->n)
				continue;
			double s = l->h[lo + (int)vrng_below(l->n - lo)].t;
			if(vrng_below(4) == 0 && s - 0.25 >= last_g[th])
				s -= 0.25;
			int kmin = 0, kmax = 0;
			while(kmin < l->n && l->h[kmin].t < s)
				kmin++;
			kmax = kmin;
			while(kmax < l->n && l->h[kmax].t <= s)
				kmax++;
			int keep = kmin + (int)vrng_below(kmax - kmin + 1);
			if(kmax > kmin) {
				n_rb_tie_kept += keep > kmin;
				n_rb_tie_undone += keep < kmax;
			}
			op_rb(th, lp, s, keep);
		} else if(k < 98) {
			double g = last_g[th] + 0.5 * (double)vrng_below(4);
			if(vrng_below(6) == 0)
				g += 3.0;
			if(g == 0.0)
				g = 0.5; /* termination_on_gvt is never called with 0.0 */
			op_gvt(th, g);
		} else if(k == 98) {
			op_ctrl();
		} else {
			op_stop();
		}
	}
}

/* the minimal witness of finding F2 (also the first scenario of every run, so that the replay is minimal) */
static void f2_scenario(void)
{
	scen_begin(1, SIMTIME_MAX);
	sh[0][0].mode = 1;
	sh[0][1].mode = 4;
	op_init(0, false);
	op_init(0, false);
	op_proc(0, 0, 0.0, true);
	op_proc(0, 0, 1.0, true);
	op_gvt(0, 2.0);
}

int main(int argc, char **argv)
{
	if(argc < 6) return 2;
	vrng_state = strtoull(argv[1], NULL, 0);
	unsigned long n = strtoul(argv[2], NULL, 0);
	f_ops = xfopen(argv[3], "w");
	f_c = xfopen(argv[4], "w");
	f_or = xfopen(argv[5], "w");
	lps = calloc(MAXT * MAXLP, sizeof(*lps));

	f2_scenario();
	for(unsigned long i = 0; i < n; ++i)
		random_scenario();

	printf("{\"scenarios\":%lu,\"ops\":%lu,\"proc\":%lu,\"proc_at_ts0\":%lu,\"rollbacks\":%lu,\"rb_tie_kept\":%lu,"
	       "\"rb_tie_undone\":%lu,\"gvt\":%lu,\"votes\":%lu,\"broadcasts\":%lu,\"init_true_lps\":%lu,\"stops\":%lu,"
	       "\"committed_calls\":%lu,\"vote_hooks\":%lu,\"premature\":%lu}\n",
	    n_scen, n_ops, n_proc, n_proc0, n_rb, n_rb_tie_kept, n_rb_tie_undone, n_gvt, n_votes, n_bcast, n_init_true,
	    n_stop, n_committed_calls, n_vote_hooks, n_premature);
	fclose(f_ops); fclose(f_c); fclose(f_or);
	return 0;
}
