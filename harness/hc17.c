/* C17 harness: the REAL sync_thread_barrier (src/core/sync.c) under the deterministic scheduler.
 * usage: hc17 <seed> <n_scenarios> <ops_out> <c_out> <oracle_out> [replay_ops_file]
 *
 * Every scenario runs in a forked child (fresh `static` counters and `__thread phase`, a hang or a
 * sanitizer abort of one scenario is a classified result and does not stop the others):
 *   N in 2..6 threads call the barrier U times each; the scheduler interleaves them at the yield points
 *   VP_BARRIER_ENTER (before the fetch_add) and VP_BARRIER_SPIN_UP/DOWN (before each load).
 *  ops_out    : "init N U" then one "step <tid>" per scheduled step  (= the schedule; fed to the Lean model)
 *  c_out      : what the real code did in that step: the yield point it stopped at ("spinup"/"spindown")
 *               or "ret <use> <leader> enter|done" when the barrier call returned
 *  oracle_out : S oracle, property evaluated on the implementation only (epoch counters around the call):
 *               nobody returns from use k before all N executed the fetch_add of use k; exactly one
 *               leader per use; no hang (step budget)
 * With a replay file (an ops file) the recorded scenarios/schedules are re-executed instead of generated.
 */
#include "vsched_step.h"
#include <sys/wait.h>
#include <unistd.h>

#include <core/sync.c> /* the real code */

struct simulation_configuration global_config;
__thread rid_t rid;
void verif_trace(unsigned kind, uint64_t a, uint64_t b, uint64_t c) { (void)kind; (void)a; (void)b; (void)c; }

#define MAXU 64
static FILE *f_ops, *f_c, *f_or;
static unsigned N, U;
static unsigned calls[VS_MAX_THREADS];     /* barrier calls started by the thread */
static unsigned fadds[VS_MAX_THREADS];     /* times the thread was resumed from VP_BARRIER_ENTER (= fetch_adds executed) */
static unsigned returned[VS_MAX_THREADS];  /* barrier calls that have returned */
static int ret_pending[VS_MAX_THREADS], ret_use[VS_MAX_THREADS], ret_flag[VS_MAX_THREADS];
static unsigned leaders[MAXU];
static unsigned long n_viol;

struct stats {
	unsigned long steps, failed_spins, returns, fast_reentry_steps, hang, viol, spread_scen, two_team_scen;
};

static void worker(unsigned tid, void *arg)
{
	(void)arg;
	rid = tid;
	for(unsigned k = 0; k < U; ++k) {
		calls[tid] = k + 1;
		bool l = sync_thread_barrier();
		/* S oracle, evaluated while this thread still holds the token */
		for(unsigned j = 0; j < N; ++j)
			if(fadds[j] < k + 1) {
				fprintf(f_or, "EARLY_PASS N=%u use=%u thread=%u returned but thread %u has executed only %u fetch_adds\n",
				    N, k, tid, j, fadds[j]);
				n_viol++;
			}
		leaders[k] += l;
		if(leaders[k] > 1) {
			fprintf(f_or, "TWO_LEADERS N=%u use=%u thread=%u\n", N, k, tid);
			n_viol++;
		}
		returned[tid] = k + 1;
		ret_pending[tid] = 1;
		ret_use[tid] = (int)k;
		ret_flag[tid] = l;
	}
}

static const char *pname(unsigned p)
{
	switch(p) {
		case VP_BARRIER_ENTER: return "enter";
		case VP_BARRIER_SPIN_UP: return "spinup";
		case VP_BARRIER_SPIN_DOWN: return "spindown";
		case 0: return "done";
		default: return "other";
	}
}

/* one scenario, in the child process */
static void scenario(unsigned policy, struct stats *st)
{
	global_config.n_threads = N;
	fprintf(f_ops, "init %u %u\n", N, U);
	fprintf(f_c, "ok\n");
	vs_budget = 400UL * N * U + 2000;
	vs_sticky_pct = policy == 1 ? 70 : 0;
	unsigned special = vrng_below(N);
	for(unsigned i = 0; i < N; ++i)
		vs_weight[i] = 1;
	vs_spawn(N, worker, NULL);
	/* prologue (harness code only): run every worker to the VP_BARRIER_ENTER of its first call */
	for(unsigned i = 0; i < N; ++i)
		if(vs_step(i) != VP_BARRIER_ENTER) {
			fprintf(f_or, "BAD_PROLOGUE thread=%u\n", i);
			n_viol++;
		}
	vs_steps = 0;
	bool spread = false;
	for(;;) {
		for(unsigned i = 0; i < N; ++i) {
			unsigned w = 1;
			if(policy == 2) w = i == special ? 1 : 12;               /* one slow thread */
			if(policy == 3) w = i == special ? 12 : 1;               /* one fast thread */
			if(policy == 4) w = vs_point(i) == VP_BARRIER_ENTER ? 10 : 1; /* prefer (re-)entering */
			vs_weight[i] = w;
		}
		int t = vs_pick();
		if(t == -1)
			break;
		if(t == -2) {
			fprintf(f_or, "HANG N=%u U=%u steps=%lu points=", N, U, vs_steps);
			for(unsigned i = 0; i < N; ++i)
				fprintf(f_or, "%s:%u%s", vs_done(i) ? "done" : pname(vs_point(i)), returned[i], i + 1 < N ? "," : "\n");
			n_viol++;
			st->hang++;
			break;
		}
		unsigned before = vs_point(t);
		if(before == VP_BARRIER_ENTER) {
			fadds[t]++;
			/* fast re-entry: this thread starts use k+1 while somebody has not yet left use k */
			for(unsigned j = 0; j < N; ++j)
				if(returned[j] + 1 < calls[t]) {
					st->fast_reentry_steps++;
					spread = true;
					break;
				}
		}
		unsigned p = vs_step(t);
		st->steps++;
		fprintf(f_ops, "step %d\n", t);
		if(ret_pending[t]) {
			ret_pending[t] = 0;
			st->returns++;
			fprintf(f_c, "ret %d %d %s\n", ret_use[t], ret_flag[t], pname(p));
		} else {
			fprintf(f_c, "%s\n", pname(p));
			if(before != VP_BARRIER_ENTER)
				st->failed_spins++;
		}
	}
	if(!st->hang) {
		for(unsigned k = 0; k < U; ++k)
			if(leaders[k] != 1) {
				fprintf(f_or, "LEADER_COUNT N=%u use=%u leaders=%u\n", N, k, leaders[k]);
				n_viol++;
			}
		vs_join();
	}
	st->spread_scen += spread;
	st->viol += n_viol;
}

int main(int argc, char **argv)
{
	if(argc < 6)
		return 2;
	uint64_t seed = strtoull(argv[1], NULL, 0);
	unsigned long n_scen = strtoul(argv[2], NULL, 0);
	/* truncate, then append-only: parent and children share the file offsets */
	for(int i = 3; i < 6; ++i)
		fclose(xfopen(argv[i], "w"));
	f_ops = xfopen(argv[3], "a");
	f_c = xfopen(argv[4], "a");
	f_or = xfopen(argv[5], "a");
	/* replay: the recorded scenarios, parsed completely before the first fork */
	static int rsched[1 << 21];
	static struct { unsigned n, u; unsigned long first, count; } rscen[1 << 16];
	unsigned long n_rscen = 0, n_rsched = 0;
	bool rep = argc > 6;
	if(rep) {
		FILE *fr = xfopen(argv[6], "r");
		char line[256];
		while(fgets(line, sizeof line, fr)) {
			unsigned a, b;
			int t;
			if(sscanf(line, "init %u %u", &a, &b) == 2 && n_rscen < (1 << 16)) {
				if(a < 1 || a > VS_MAX_THREADS || b > MAXU)
					return 2;
				rscen[n_rscen].n = a; rscen[n_rscen].u = b;
				rscen[n_rscen].first = n_rsched; rscen[n_rscen].count = 0;
				n_rscen++;
			} else if(sscanf(line, "step %d", &t) == 1 && n_rscen && n_rsched < (1 << 21)) {
				rsched[n_rsched++] = t;
				rscen[n_rscen - 1].count++;
			}
		}
		fclose(fr);
		n_scen = n_rscen;
	}
	vrng_state = seed * 0x100000001b3ULL + 17;

	struct stats tot = {0};
	unsigned long hist_n[VS_MAX_THREADS + 1] = {0}, hist_pol[5] = {0}, crashes = 0, done_scen = 0;
	for(unsigned long sc = 0; sc < n_scen; ++sc) {
		unsigned policy;
		uint64_t sub;
		if(rep) {
			N = rscen[sc].n;
			U = rscen[sc].u;
			policy = 0;
			sub = 1;
		} else {
			N = 2 + (unsigned)vrng_below(5);
			U = vrng_below(4) ? 1 + (unsigned)vrng_below(9) : 4 * (1 + (unsigned)vrng_below(4));
			policy = (unsigned)vrng_below(5);
			sub = vrng();
		}
		int two_teams = !rep && vrng_below(4) == 0;
		hist_n[N]++;
		hist_pol[policy]++;
		int pfd[2];
		if(pipe(pfd))
			return 2;
		fflush(f_ops); fflush(f_c); fflush(f_or); fflush(stdout);
		pid_t pid = fork();
		if(pid == 0) {
			close(pfd[0]);
			struct stats st = {0};
			vrng_state = sub;
			if(rep) {
				vs_sched = rsched + rscen[sc].first;
				vs_sched_n = rscen[sc].count;
				vs_sched_i = 0;
			}
			if(!rep && two_teams) {
				/* a first team of another size uses the barrier a multiple of 4 times and exits (counters back at 0, the
				 * process-wide statics of sync_thread_barrier stay): the team under test then re-uses the same barrier.
				 * The model restarts at `init` (fresh state), which is what the real code must be equivalent to. */
				unsigned n2 = N, u2 = U;
				N = 2 + (unsigned)vrng_below(5);
				if(N == n2)
					N = n2 == 6 ? 2 : n2 + 1;
				U = 4 * (1 + (unsigned)vrng_below(2));
				scenario(0, &st);
				memset(calls, 0, sizeof calls); memset(fadds, 0, sizeof fadds); memset(returned, 0, sizeof returned);
				memset(ret_pending, 0, sizeof ret_pending); memset(leaders, 0, sizeof leaders);
				N = n2; U = u2;
				st.two_team_scen++;
			}
			if(!st.hang)
				scenario(policy, &st);
			fflush(f_ops); fflush(f_c); fflush(f_or);
			if(write(pfd[1], &st, sizeof st) != sizeof st)
				_exit(3);
			_exit(0);
		}
		close(pfd[1]);
		struct stats st = {0};
		ssize_t got = read(pfd[0], &st, sizeof st);
		close(pfd[0]);
		int status = 0;
		waitpid(pid, &status, 0);
		if(got != sizeof st || !WIFEXITED(status) || WEXITSTATUS(status)) {
			/* the implementation crashed (sanitizer abort, signal): a result in itself */
			fprintf(f_or, "CRASH scenario=%lu N=%u U=%u status=%d\n", sc, N, U, status);
			crashes++;
			break; /* the ops/c files of this scenario are incomplete */
		}
		tot.steps += st.steps; tot.failed_spins += st.failed_spins; tot.returns += st.returns;
		tot.fast_reentry_steps += st.fast_reentry_steps; tot.hang += st.hang; tot.viol += st.viol;
		tot.spread_scen += st.spread_scen;
		tot.two_team_scen += st.two_team_scen;
		done_scen++;
		if(st.hang)
			break; /* c_out of a hung scenario is complete up to the budget; stop here */
	}
	printf("{\"scenarios\":%lu,\"steps\":%lu,\"returns\":%lu,\"failed_spins\":%lu,\"fast_reentry_steps\":%lu,"
	       "\"scenarios_with_fast_reentry\":%lu,\"scenarios_after_a_team_of_another_size\":%lu,\"hangs\":%lu,\"crashes\":%lu,\"oracle_violations\":%lu,"
	       "\"threads_hist\":{\"2\":%lu,\"3\":%lu,\"4\":%lu,\"5\":%lu,\"6\":%lu},"
	       "\"policy_hist\":{\"uniform\":%lu,\"sticky\":%lu,\"one_slow\":%lu,\"one_fast\":%lu,\"prefer_enter\":%lu}}\n",
	    done_scen, tot.steps, tot.returns, tot.failed_spins, tot.fast_reentry_steps, tot.spread_scen, tot.two_team_scen, tot.hang,
	    crashes, tot.viol, hist_n[2], hist_n[3], hist_n[4], hist_n[5], hist_n[6], hist_pol[0], hist_pol[1],
	    hist_pol[2], hist_pol[3], hist_pol[4]);
	fclose(f_ops); fclose(f_c); fclose(f_or);
	return 0;
}
