/* GenModel: a table/hash-driven simulation model that exists on both sides
 * (C: here; Lean: lean/RootSim/Model/GenModel.lean — keep the two in sync, bit for bit).
 *
 * Time stamps are multiples of 0.25 ("quarters", tq); all arithmetic on them is exact in binary64.
 * Event type NT-1 is the self-perpetuating "tick"; lower types are transient events whose
 * descendants have strictly lower types (finite cascades, bounded population).
 * Zero-delay outputs always have a strictly lower type than the event that schedules them, so
 * contract V2 (no event is scheduled *before* the current one in the msg_is_before order) holds -
 * even its strict form V2s (every output is strictly AFTER its cause).
 * V2-only mode (GM.fwd_tok, "token forwards"): an ordinary (non-tick, non-frozen) event of type >= 1 is ALSO forwarded, unchanged
 * and with ZERO delay (same time stamp, type, size, payload bytes), to the next LP of the ring when the LP's event counter is not
 * a multiple of 4 after the increment. The copy is INCOMPARABLE with its cause under msg_is_before (the destination is not part
 * of the order): allowed by V2, excluded by V2s. Cascades are finite: every hop increments the counter of a non-frozen LP.
 * An LP whose event counter reached its threshold is frozen: CanEnd is true and the handler
 * does nothing any more.
 */
#pragma once
#include <ROOT-Sim.h>
#include <stdint.h>
#include <string.h>

struct gm_params {
	uint64_t seed;
	unsigned n_lps, n_types, max_fan, thr_base, thr_spread, use_rng, mem_ops, t0_events;
	unsigned skew; /* LPs tick on very different time scales: some run far ahead of the GVT with sparse histories */
	unsigned live; /* frozen LPs keep re-scheduling their tick (no state change): the event population never dies out, so a run can end
	               * only through the termination predicates / termination time (no Lean twin: implementation-side oracles only) */
	unsigned fwd_tok; /* V2-only mode: zero-delay forwards of IDENTICAL content to the next LP (bit 1 of the `t0` field of the model line) */
	unsigned stop_at; /* LP 0 calls RootsimStop() when its event counter reaches this value (0: never); no effect on the handler's
	                   * outputs or state, so the Lean twin is unchanged (parallel modes only) */
	unsigned nostate; /* STATELESS LPs: no SetState() (the handler gets a NULL state), no draw at LP_INIT, every event draws from the library
	                   * RNG and its outputs depend on the draw: the only rollbackable state is the generator (no Lean twin) */
	unsigned lib; /* also use the floating-point library RNG API (no Lean twin: judged by the implementation-side oracles only) */
};
static struct gm_params GM;

#define GM_SLOTS 4
struct gm_state {
	uint64_t cnt, acc;
	uint32_t sz[GM_SLOTS];
	unsigned char *buf[GM_SLOTS];
};

static const unsigned GM_DELAYS_Q[7] = {0, 1, 2, 4, 4, 8, 14};
static const unsigned GM_SIZES[8] = {0, 0, 4, 16, 32, 33, 100, 200};
static const unsigned GM_BUFSZ[7] = {8, 64, 65, 200, 1000, 5000, 33000};

static inline uint64_t gm_mix(uint64_t z)
{
	z += 0x9e3779b97f4a7c15ULL;
	z = (z ^ (z >> 30)) * 0xbf58476d1ce4e5b9ULL;
	z = (z ^ (z >> 27)) * 0x94d049bb133111ebULL;
	return z ^ (z >> 31);
}

#define GM_FNV_OFF 0xcbf29ce484222325ULL
#define GM_FNV_PRIME 0x100000001b3ULL
static inline uint64_t gm_fnv_bytes(uint64_t h, const unsigned char *p, size_t n)
{
	for(size_t i = 0; i < n; ++i)
		h = (h ^ p[i]) * GM_FNV_PRIME;
	return h;
}
static inline uint64_t gm_fnv_u64(uint64_t h, uint64_t v)
{
	for(int i = 0; i < 8; ++i)
		h = (h ^ ((v >> (8 * i)) & 0xff)) * GM_FNV_PRIME;
	return h;
}
static inline uint64_t gm_fnv_u32(uint64_t h, uint32_t v)
{
	for(int i = 0; i < 4; ++i)
		h = (h ^ ((v >> (8 * i)) & 0xff)) * GM_FNV_PRIME;
	return h;
}

static inline uint64_t gm_threshold(lp_id_t lp)
{
	/* thr_spread >= 1000 encodes two values: every (thr_spread / 1000)-th LP satisfies its predicate already at LP_INIT
	 * (threshold 0), the others use the spread thr_spread % 1000 */
	unsigned zmod = GM.thr_spread / 1000, spread = GM.thr_spread % 1000;
	if(zmod && lp % zmod == 0)
		return 0;
	return GM.thr_base + (spread ? gm_mix(GM.seed ^ (0xabcdULL + lp)) % spread : 0);
}

/* digest of everything the model keeps in rollbackable memory, RNG state included */
static inline uint64_t gm_digest(const struct gm_state *st, const uint64_t rng[4])
{
	uint64_t h = GM_FNV_OFF;
	if(!st) { /* stateless LP: the generator is everything */
		for(int i = 0; i < 4; ++i)
			h = gm_fnv_u64(h, rng ? rng[i] : 0);
		return h;
	}
	h = gm_fnv_u64(h, st->cnt);
	h = gm_fnv_u64(h, st->acc);
	for(int s = 0; s < GM_SLOTS; ++s) {
		h = gm_fnv_u32(h, st->sz[s]);
		if(st->buf[s])
			h = gm_fnv_bytes(h, st->buf[s], st->sz[s]);
	}
	for(int i = 0; i < 4; ++i)
		h = gm_fnv_u64(h, rng[i]);
	return h;
}

static inline uint64_t gm_payload_digest(const unsigned char *p, unsigned n)
{
	return gm_fnv_bytes(GM_FNV_OFF, p, n);
}

static inline void gm_fill(unsigned char *b, uint32_t from, uint32_t to, unsigned fb)
{
	for(uint32_t i = from; i < to; ++i)
		b[i] = (unsigned char)((fb + i * 7U) & 0xff);
}

static inline void gm_memop(struct gm_state *st, uint64_t a)
{
	unsigned s = a % GM_SLOTS, op = (a >> 2) % 4;
	uint32_t pick = GM_BUFSZ[(a >> 4) % 7];
	unsigned fb = (a >> 8) & 0xff;
	switch(op) {
		case 0:
			break;
		case 1:
			if(st->buf[s]) {
				rs_free(st->buf[s]);
				st->buf[s] = NULL;
				st->sz[s] = 0;
			} else {
				st->buf[s] = rs_malloc(pick);
				st->sz[s] = pick;
				gm_fill(st->buf[s], 0, pick, fb);
			}
			break;
		case 2:
			if(st->buf[s]) {
				uint32_t old = st->sz[s];
				st->buf[s] = rs_realloc(st->buf[s], pick);
				st->sz[s] = pick;
				if(pick > old)
					gm_fill(st->buf[s], old, pick, fb);
			} else {
				st->buf[s] = rs_malloc(pick);
				st->sz[s] = pick;
				gm_fill(st->buf[s], 0, pick, fb);
			}
			break;
		default:
			if(st->buf[s])
				st->buf[s][(a >> 16) % st->sz[s]] ^= (unsigned char)(((a >> 40) & 0xff) | 1);
			break;
	}
}

/* hooks the harness may set to observe dispatches */
static void (*gm_on_dispatch)(lp_id_t me, uint64_t tq, unsigned type, const void *pl, unsigned size, int frozen);
static void (*gm_on_init)(lp_id_t me);
static void (*gm_on_fini)(lp_id_t me, const struct gm_state *st);

static inline void gm_send(lp_id_t dest, uint64_t tq, unsigned type, unsigned size, uint64_t acc, int carry)
{
	unsigned char pl[200];
	unsigned pb = acc % 3;
	memset(pl, (int)pb, size);
	if(carry && size >= 8)
		for(int i = 0; i < 8; ++i)
			pl[i] = (acc >> (8 * i)) & 0xff;
	/* payloads longer than the 32-byte inline buffer often share their first 32 bytes and differ only in the tail */
	if(size > 32)
		pl[size - 1] = (acc >> 8) & 0x3;
	ScheduleNewEvent(dest, (double)tq / 4.0, type, size ? pl : NULL, size);
}

static void gm_process(lp_id_t me, simtime_t now, unsigned type, const void *pl, unsigned size, void *st_v)
{
	struct gm_state *st = st_v;
	if(type == LP_FINI) {
		if(gm_on_fini)
			gm_on_fini(me, st);
		return;
	}
	if(GM.nostate) {
		/* stateless variant: see struct gm_params */
		if(type == LP_INIT) {
			if(gm_on_init)
				gm_on_init(me);
			gm_send(me, 1 + me % 3, GM.n_types - 1, 0, gm_mix(GM.seed ^ me), 0);
			return;
		}
		uint64_t tqn = (uint64_t)(now * 4.0);
		if(gm_on_dispatch)
			gm_on_dispatch(me, tqn, type, pl, size, 0);
		uint64_t a = RandomU64() ^ gm_fnv_bytes(gm_mix(tqn ^ type), pl, size);
		if(type == GM.n_types - 1)
			gm_send(me, tqn + GM_DELAYS_Q[1 + (a >> 8) % 6], type, GM_SIZES[(a >> 24) % 8], a, 1);
		else if(type > 0 && (a & 3))
			gm_send((a >> 20) % GM.n_lps, tqn + GM_DELAYS_Q[(a >> 12) % 7], type - 1, GM_SIZES[(a >> 28) % 8], a, 1);
		if(type == GM.n_types - 1 && (a >> 40) % 3 == 0)
			gm_send((a >> 44) % GM.n_lps, tqn + GM_DELAYS_Q[1 + (a >> 50) % 6], (a >> 54) % GM.n_types ? (a >> 54) % GM.n_types - 1 : 0,
			    GM_SIZES[(a >> 58) % 8], a, 1);
		return;
	}
	if(type == LP_INIT) {
		st = rs_malloc(sizeof(*st));
		memset(st, 0, sizeof(*st));
		SetState(st);
		st->acc = gm_mix(GM.seed ^ me);
		if(gm_on_init)
			gm_on_init(me);
		/* the tick, plus possibly one more initial event */
		uint64_t h = gm_mix(GM.seed + 0x1111ULL * me);
		unsigned n0 = 1 + h % 2;
		for(unsigned j = 0; j < n0; ++j) {
			uint64_t hj = gm_mix(h + j + 1);
			lp_id_t dest = j == 0 ? me : (hj >> 32) % GM.n_lps;
			unsigned dq = GM.t0_events ? GM_DELAYS_Q[(hj >> 8) % 7] : GM_DELAYS_Q[1 + (hj >> 8) % 6];
			unsigned ty = j == 0 ? GM.n_types - 1 : (hj >> 16) % GM.n_types;
			unsigned sz = GM_SIZES[(hj >> 24) % 8];
			gm_send(dest, dq, ty, sz, st->acc, (hj >> 40) & 1);
		}
		return;
	}
	uint64_t tq = (uint64_t)(now * 4.0);
	int frozen = st->cnt >= gm_threshold(me);
	if(gm_on_dispatch)
		gm_on_dispatch(me, tq, type, pl, size, frozen);
	if(frozen) {
		if(GM.live && type == GM.n_types - 1) {
			uint64_t hf = gm_mix(GM.seed ^ ((uint64_t)type * 0x9e3779b1ULL));
			gm_send(me, tq + GM_DELAYS_Q[1 + (hf >> 8) % 6] * (1 + (me % 3) * GM.skew), type, GM_SIZES[(hf >> 24) % 8], st->acc,
			    (hf >> 40) & 1);
		}
		return;
	}
	/* 1. absorb the event */
	uint64_t h = gm_mix(st->acc ^ gm_mix(tq * GM_FNV_PRIME ^ type ^ ((uint64_t)size << 32)));
	h = gm_fnv_bytes(h, pl, size);
	st->acc = h;
	st->cnt++;
	if(GM.stop_at && me == 0 && st->cnt == GM.stop_at)
		RootsimStop();
	/* 2. library RNG */
	if(GM.use_rng && (h & 1))
		st->acc ^= RandomU64();
	/* 2b. the rest of the numerical library: results are folded into the state, so any hidden state outside the
	 * LP's rollbackable memory shows up as a state difference after rollback or across configurations */
	if(GM.lib) {
		double v = 0;
		switch((h >> 3) % 6) {
			case 0: v = Normal(); break;
			case 1: v = Poisson(); break;
			case 2: v = Gamma(1 + (h >> 8) % 4); break;
			case 3: v = (double)RandomRange(-5, 1000); break;
			case 4: v = Random(); break;
			default: v = (double)RandomRangeNonUniform(7, 0, 50); break;
		}
		uint64_t vb;
		memcpy(&vb, &v, 8);
		st->acc ^= gm_mix(vb);
	}
	/* 3. dynamic memory */
	if(GM.mem_ops)
		gm_memop(st, st->acc >> 1);
	/* 4. outputs */
	uint64_t a = st->acc;
	uint64_t hh = gm_mix(GM.seed ^ ((uint64_t)type * 0x9e3779b1ULL));
	if(type == GM.n_types - 1) {
		unsigned dq = GM_DELAYS_Q[1 + (hh >> 8) % 6] * (1 + (me % 3) * GM.skew);
		gm_send(me, tq + dq, type, GM_SIZES[(hh >> 24) % 8], a, (hh >> 40) & 1);
	}
	if(type == 0)
		return;
	for(unsigned j = 1; j < GM.max_fan; ++j) {
		if((a >> (8 + 2 * j)) & 1)
			continue;
		uint64_t hj = gm_mix(hh + j);
		lp_id_t dest;
		switch((hj + (a >> 30)) % 4) {
			case 0: dest = me; break;
			case 1: dest = (me + 1) % GM.n_lps; break;
			case 2: dest = (a >> 20) % GM.n_lps; break;
			default: dest = (hj >> 32) % GM.n_lps; break;
		}
		unsigned dq = GM_DELAYS_Q[((hj >> 8) + (a >> 34)) % 7];
		unsigned ty = (hj >> 16) % type; /* strictly lower type */
		gm_send(dest, tq + dq, ty, GM_SIZES[(hj >> 24) % 8], a, (hj >> 40) & 1);
	}
	/* 5. V2-only mode: the event itself goes on to the next LP, unchanged, at the same time stamp (type >= 1 here) */
	if(GM.fwd_tok && type != GM.n_types - 1 && (st->cnt & 3) != 0)
		ScheduleNewEvent((me + 1) % GM.n_lps, now, type, size ? pl : NULL, size);
}

static bool gm_can_end(lp_id_t me, const void *st_v)
{
	const struct gm_state *st = st_v;
	if(!st)
		return false; /* stateless variant: runs end at the termination time */
	return st->cnt >= gm_threshold(me);
}
