/* C15 free-running stress oracle (S only, no model): real OS threads, no scheduler.
 * Thread 0 is the consumer; P producers keep inserting messages with large time stamps for it. In every round the consumer
 *   1. inserts for itself a message with a SMALL time stamp (the insertion has completed before the query begins),
 *   2. calls msg_queue_time_peek(): the answer must be <= that time stamp (true lower bound),
 *   3. extracts until it gets the small message back, checking that time stamps never decrease below what was peeked and
 *      counting every extracted message.
 * At the end everything is drained: #extracted == #inserted, every message id exactly once.
 * usage: hc15s <seed> <rounds> <producers>   -> one JSON line; exit 1 on an oracle failure */
#include "vcommon.h"
#include "stubs_min.h"
#include <datatypes/msg_queue.c>
#include <pthread.h>

uint64_t lid_node_first;
void msg_allocator_free(struct lp_msg *m) { (void)m; }

static pthread_barrier_t bar;
static atomic_bool stop_flag;
static atomic_long outstanding;
static atomic_ullong produced;
#define MAXID (1u << 22)
static unsigned char *seen;

static struct lp_msg *mk(double t, uint32_t id)
{
	struct lp_msg *m = calloc(1, sizeof(*m));
	m->dest = 0;
	m->dest_t = t;
	m->m_seq = id;
	return m;
}

static void *producer(void *arg)
{
	rid = (rid_t)(uintptr_t)arg;
	uint64_t st = 0x1234567 * (rid + 1);
	pthread_barrier_wait(&bar);
	while(!atomic_load_explicit(&stop_flag, memory_order_relaxed)) {
		if(atomic_load_explicit(&outstanding, memory_order_relaxed) >= 2048)
			continue;
		unsigned long long id = atomic_fetch_add_explicit(&produced, 1, memory_order_relaxed);
		if(id >= MAXID / 2)
			break;
		atomic_fetch_add_explicit(&outstanding, 1, memory_order_relaxed);
		st = st * 6364136223846793005ULL + 1442695040888963407ULL;
		msg_queue_insert(mk(100.0 + (double)((st >> 33) % 50), (uint32_t)id));
	}
	return NULL;
}

int main(int argc, char **argv)
{
	unsigned long rounds = argc > 2 ? strtoul(argv[2], NULL, 0) : 100000;
	unsigned P = argc > 3 ? (unsigned)atoi(argv[3]) : 3;
	vrng_state = argc > 1 ? strtoull(argv[1], NULL, 0) : 1;
	global_config.n_threads = P + 1;
	global_config.lps = 1; /* every LP id maps to thread 0 */
	n_lps_node = P + 1;    /* lid_to_rid(0) = 0 */
	seen = calloc(MAXID, 1);
	msg_queue_global_init();
	rid = 0;
	msg_queue_init();
	pthread_barrier_init(&bar, NULL, P + 1);
	pthread_t th[16];
	for(unsigned i = 0; i < P; ++i)
		pthread_create(&th[i], NULL, producer, (void *)(uintptr_t)(i + 1));
	pthread_barrier_wait(&bar);
	unsigned long bad_peek = 0, dup = 0, extracted = 0, own = 0, order = 0;
	uint32_t own_id = MAXID / 2;
	for(unsigned long r = 0; r < rounds; ++r) {
		double low = 1.0 + (double)vrng_below(40);
		msg_queue_insert(mk(low, own_id)); /* completed before the query below begins */
		own++;
		double p = msg_queue_time_peek();
		if(p > low)
			bad_peek++;
		for(;;) {
			struct lp_msg *m = msg_queue_extract();
			if(!m) { order++; break; } /* the own message must come out before the queue runs dry */
			extracted++;
			if(m->m_seq < MAXID) {
				if(seen[m->m_seq]) dup++;
				seen[m->m_seq] = 1;
			}
			int mine = m->m_seq == own_id;
			if(!mine)
				atomic_fetch_sub_explicit(&outstanding, 1, memory_order_relaxed);
			free(m);
			if(mine)
				break;
		}
		/* consume some of the producers' messages as well, so that they keep producing */
		for(unsigned k = vrng_below(12); k-- > 0;) {
			struct lp_msg *m = msg_queue_extract();
			if(!m) break;
			extracted++;
			if(m->m_seq < MAXID) {
				if(seen[m->m_seq]) dup++;
				seen[m->m_seq] = 1;
			}
			atomic_fetch_sub_explicit(&outstanding, 1, memory_order_relaxed);
			free(m);
		}
		own_id++;
		if(own_id >= MAXID) break;
	}
	atomic_store(&stop_flag, 1);
	for(unsigned i = 0; i < P; ++i)
		pthread_join(th[i], NULL);
	for(struct lp_msg *m; (m = msg_queue_extract()) != NULL;) {
		extracted++;
		if(m->m_seq < MAXID) {
			if(seen[m->m_seq]) dup++;
			seen[m->m_seq] = 1;
		}
		free(m);
	}
	unsigned long long inserted = atomic_load(&produced) + own;
	if(atomic_load(&produced) > MAXID / 2) inserted = (unsigned long long)MAXID / 2 + own; /* producers stop at the id limit */
	unsigned long lost = 0;
	for(unsigned long long i = 0; i < atomic_load(&produced) && i < MAXID / 2; ++i) lost += !seen[i];
	printf("{\"rounds\":%lu,\"producers\":%u,\"produced\":%llu,\"extracted\":%lu,\"peek_above_pending\":%lu,\"duplicates\":%lu,"
	       "\"lost\":%lu,\"own_not_returned\":%lu}\n", rounds, P, (unsigned long long)atomic_load(&produced), extracted, bad_peek, dup, lost, order);
	return (bad_peek || dup || lost || order) ? 1 : 0;
}
