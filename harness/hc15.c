/* C15 (buffer half) harness: the REAL msg_queue_insert / msg_queue_extract / msg_queue_time_peek
 * (src/datatypes/msg_queue.c) with 1..4 producer threads and the consumer under the deterministic
 * scheduler (yield points VP_QUEUE_INSERT_LOADED, VP_QUEUE_INSERT_CAS_FAIL, VP_QUEUE_SWAP).
 * usage: hc15 <seed> <n_scenarios> <ops_out> <c_out> <oracle_out>
 *  ops_out    : "init P", then per scheduled step "load p <thex>" / "cas p" / "c extract <id|none>" / "c peek"
 *  c_out      : what the real code did: "loaded <id>", "ok"/"fail", "x <id> <thex>"/"x none", "p <thex>"
 *  oracle_out : S oracle on the implementation only: every inserted message extracted exactly once (LOSS / DUP /
 *               PHANTOM), extraction and peek never above the minimum of the messages whose insert completed
 *               before the operation began and that are not extracted (PEEK_HIGH / EXTRACT_NOT_MIN), no hang.
 * Every scenario runs in a forked child (fresh `queues`, `mqp`; a sanitizer abort is a classified result).
 */
#include "vsched_step.h"
#include <sys/wait.h>
#include <unistd.h>

#include <core/core.h>
#include <log/log.h>
struct simulation_configuration global_config;
lp_id_t n_lps_node;
__thread rid_t rid;
nid_t n_nodes = 1;
nid_t nid;
uint64_t lid_node_first;
void vlogger(enum log_level level, char *file, unsigned line, const char *fmt, ...)
{
	(void)level; (void)file; (void)line; (void)fmt;
}
void verif_trace(unsigned kind, uint64_t a, uint64_t b, uint64_t c) { (void)kind; (void)a; (void)b; (void)c; }
static unsigned long n_alloc_free;

#include <datatypes/msg_queue.c> /* the real code */

void msg_allocator_free(struct lp_msg *m) { n_alloc_free++; free(m); }

#define VP_H_IDLE 100 /* harness yield point: a producer between two inserts */
#define MAXM 4096

static FILE *f_ops, *f_c, *f_or;
static unsigned P;
static unsigned n_per_prod[VS_MAX_THREADS];
static unsigned long n_viol;

struct minfo {
	struct lp_msg *m;
	double t;
	int completed;  /* msg_queue_insert has returned */
	int extracted;
};
static struct minfo mi[MAXM];
static unsigned n_msgs;
static int cur_msg[VS_MAX_THREADS]; /* message a producer is inserting */
static volatile int producers_done;

/* consumer results of the last step */
static int c_kind;           /* operation completed in the last step: 0 none, 1 extract, 2 peek */
static int c_id;             /* extracted id, -1 for NULL */
static double c_val;
static double bound_before;  /* min t over completed, not extracted messages when the operation began */
static unsigned long n_extract, n_peek, n_extract_null;

static const double TS[] = {0.0, 1.0, 1.0, 1.5, 2.0, 2.0, 7.25, 1e10};

static double outstanding_min(void)
{
	double mn = SIMTIME_MAX;
	for(unsigned i = 0; i < n_msgs; ++i)
		if(mi[i].completed && !mi[i].extracted && mi[i].t < mn)
			mn = mi[i].t;
	return mn;
}

static void producer(unsigned tid)
{
	unsigned p = tid - 1;
	for(unsigned k = 0; k < n_per_prod[p]; ++k) {
		verif_yield(VP_H_IDLE);
		struct lp_msg *m = malloc(sizeof(*m));
		memset(m, 0, sizeof(*m));
		m->dest = 0;
		m->dest_t = vrng_below(5) ? TS[vrng_below(8)] : (double)vrng_below(1000) / 8.0;
		m->raw_flags = (uint32_t)vrng_below(2); /* the anti bit takes part in the heap's tie-break */
		m->m_type = (uint32_t)vrng_below(3);
		m->next = (struct lp_msg *)(uintptr_t)0xdeadbeef; /* must be overwritten by the insert */
		int id = (int)n_msgs++;
		mi[id].m = m;
		mi[id].t = m->dest_t;
		cur_msg[tid] = id;
		msg_queue_insert(m);
		mi[id].completed = 1;
		cur_msg[tid] = -1;
	}
}

static int find_msg(struct lp_msg *m)
{
	for(unsigned i = 0; i < n_msgs; ++i)
		if(mi[i].m == m)
			return (int)i;
	return -1;
}

static void consumer(void)
{
	msg_queue_init();
	bool last_null = false;
	while(!(producers_done && last_null)) {
		bool do_peek = !producers_done ? vrng_below(3) == 0 : vrng_below(6) == 0;
		/* the operation "begins" when the consumer is resumed from VP_QUEUE_SWAP: the scheduler
		 * samples bound_before at that moment (see run loop) */
		if(do_peek) {
			c_val = msg_queue_time_peek();
			c_kind = 2;
			n_peek++;
			last_null = false; /* the peek may have moved messages into the private heap */
			if(c_val > bound_before) {
				fprintf(f_or, "PEEK_HIGH P=%u peek=%a bound=%a\n", P, c_val, bound_before);
				n_viol++;
			}
		} else {
			struct lp_msg *m = msg_queue_extract();
			c_kind = 1;
			n_extract++;
			if(!m) {
				c_id = -1;
				n_extract_null++;
				last_null = true;
				if(bound_before < SIMTIME_MAX) {
					fprintf(f_or, "LOSS P=%u extract returned NULL although a completed insert (t=%a) is outstanding\n",
					    P, bound_before);
					n_viol++;
				}
			} else {
				last_null = false;
				int id = find_msg(m);
				c_id = id;
				if(id < 0) {
					fprintf(f_or, "PHANTOM P=%u extracted a pointer that was never inserted\n", P);
					n_viol++;
					c_val = -1;
				} else {
					c_val = m->dest_t;
					if(mi[id].extracted) {
						fprintf(f_or, "DUP P=%u message %d extracted twice\n", P, id);
						n_viol++;
					}
					if(m->dest_t > bound_before) {
						fprintf(f_or, "EXTRACT_NOT_MIN P=%u message %d t=%a but an older completed insert t=%a is outstanding\n",
						    P, id, m->dest_t, bound_before);
						n_viol++;
					}
					mi[id].extracted++;
					mi[id].m = NULL;
					free(m); /* ASan: any later access through the queue is a use-after-free */
				}
			}
		}
	}
	msg_queue_fini();
}

static void worker(unsigned tid, void *arg)
{
	(void)arg;
	rid = tid;
	if(tid == 0)
		consumer();
	else
		producer(tid);
}

struct stats {
	unsigned long steps, loads, cas_ok, cas_fail, extracts, extract_null, peeks, msgs, hang, viol, swaps_nonempty2;
};

static void scenario(unsigned policy, struct stats *st)
{
	global_config.n_threads = P + 1;
	global_config.lps = P + 1;
	n_lps_node = P + 1;
	lid_node_first = 0;
	msg_queue_global_init();
	fprintf(f_ops, "init %u\n", P);
	fprintf(f_c, "ok\n");
	unsigned total = 0;
	for(unsigned p = 0; p < P; ++p)
		total += n_per_prod[p];
	vs_budget = 200UL * (total + 4) + 2000;
	vs_sticky_pct = policy == 1 ? 60 : 0;
	for(unsigned i = 0; i <= P; ++i) {
		vs_weight[i] = 1;
		cur_msg[i] = -1;
	}
	vs_spawn(P + 1, worker, NULL);
	/* prologue: every thread to its first yield (consumer: VP_QUEUE_SWAP of its first operation;
	 * producers: VP_H_IDLE); only harness code and msg_queue_init run here */
	bound_before = SIMTIME_MAX;
	for(unsigned i = 0; i <= P; ++i)
		vs_step(i);
	vs_steps = 0;
	for(;;) {
		if(!producers_done) {
			bool all = true;
			for(unsigned i = 1; i <= P; ++i)
				all &= vs_done(i);
			producers_done = all;
		}
		for(unsigned i = 0; i <= P; ++i) {
			unsigned w = 2;
			if(i == 0) w = policy == 2 ? 8 : policy == 3 ? 1 : 2;          /* eager / lazy consumer */
			if(i == 0 && policy == 5) w = producers_done ? 2 : 0;        /* consumer absent while a large backlog builds up */
			else if(policy == 4) w = vs_point(i) == VP_QUEUE_INSERT_LOADED ? 1 : 6; /* widen load..CAS windows */
			vs_weight[i] = w;
		}
		int t = vs_pick();
		if(t == -1)
			break;
		if(t == -2) {
			fprintf(f_or, "HANG P=%u steps=%lu\n", P, vs_steps);
			n_viol++;
			st->hang++;
			break;
		}
		unsigned before = vs_point(t);
		if(t == 0) {
			bound_before = outstanding_min();
			c_kind = 0;
		}
		int id_before = cur_msg[t];
		unsigned p = vs_step(t);
		st->steps++;
		if(t == 0) {
			if(c_kind == 1) {
				st->extracts++;
				if(c_id >= 0) {
					fprintf(f_ops, "c extract %d\n", c_id);
					fprintf(f_c, "x %d %llx\n", c_id, (unsigned long long)dbl_bits(c_val));
				} else {
					st->extract_null++;
					fprintf(f_ops, "c extract none\n");
					fprintf(f_c, "x none\n");
				}
			} else if(c_kind == 2) {
				st->peeks++;
				fprintf(f_ops, "c peek\n");
				fprintf(f_c, "p %llx\n", (unsigned long long)dbl_bits(c_val));
			} else {
				fprintf(f_ops, "c none\n");
				fprintf(f_c, "consumer-step-without-operation\n");
			}
		} else if(before == VP_H_IDLE) {
			st->loads++;
			int id = cur_msg[t];
			fprintf(f_ops, "load %d %llx\n", t - 1, (unsigned long long)dbl_bits(id >= 0 ? mi[id].t : -1.0));
			fprintf(f_c, p == VP_QUEUE_INSERT_LOADED ? "loaded %d\n" : "no-yield-after-load %d\n", id);
		} else {
			fprintf(f_ops, "cas %d\n", t - 1);
			if(p == VP_QUEUE_INSERT_CAS_FAIL) {
				st->cas_fail++;
				fprintf(f_c, "fail\n");
			} else if((p == VP_H_IDLE || p == 0) && id_before >= 0 && mi[id_before].completed) {
				st->cas_ok++;
				fprintf(f_c, "ok\n");
			} else
				fprintf(f_c, "unexpected-point %u\n", p);
		}
	}
	if(!st->hang) {
		for(unsigned i = 0; i < n_msgs; ++i)
			if(mi[i].extracted != 1) {
				fprintf(f_or, "LOSS P=%u message %u (t=%a) extracted %d times at the end of the run\n", P, i, mi[i].t,
				    mi[i].extracted);
				n_viol++;
			}
		if(n_alloc_free) {
			fprintf(f_or, "FINI_FREED P=%u msg_queue_fini released %lu messages that were still queued\n", P, n_alloc_free);
			n_viol++;
		}
		vs_join();
		msg_queue_global_fini();
	}
	st->msgs = n_msgs;
	st->viol = n_viol;
}

int main(int argc, char **argv)
{
	if(argc < 6)
		return 2;
	uint64_t seed = strtoull(argv[1], NULL, 0);
	unsigned long n_scen = strtoul(argv[2], NULL, 0);
	for(int i = 3; i < 6; ++i)
		fclose(xfopen(argv[i], "w"));
	f_ops = xfopen(argv[3], "a");
	f_c = xfopen(argv[4], "a");
	f_or = xfopen(argv[5], "a");
	vrng_state = seed * 0x100000001b3ULL + 15;
	struct stats tot = {0};
	unsigned long hist_p[5] = {0}, hist_pol[6] = {0}, crashes = 0, done_scen = 0;
	for(unsigned long sc = 0; sc < n_scen; ++sc) {
		P = 1 + (unsigned)vrng_below(4);
		for(unsigned p = 0; p < P; ++p)
			n_per_prod[p] = 1 + (unsigned)vrng_below(vrng_below(3) ? 6 : 20);
		unsigned policy = (unsigned)vrng_below(5);
		if(sc % 25 == 7) {
			/* burst: several hundred messages buffered for the consumer before its first queue operation */
			policy = 5;
			n_per_prod[0] = 280 + (unsigned)vrng_below(400);
		}
		uint64_t sub = vrng();
		hist_p[P]++;
		hist_pol[policy]++;
		int pfd[2];
		if(pipe(pfd))
			return 2;
		fflush(f_ops); fflush(f_c); fflush(f_or); fflush(stdout);
		pid_t pid = fork();
		if(pid == 0) {
			close(pfd[0]);
			struct stats st = {0};
			vrng_state = sub;
			scenario(policy, &st);
			fflush(f_ops); fflush(f_c); fflush(f_or);
			if(write(pfd[1], &st, sizeof st) != sizeof st)
				_exit(3);
			_exit(0);
		}
		close(pfd[1]);
		struct stats st = {0};
		ssize_t got = read(pfd[0], &st, sizeof st);
		close(pfd[0]);
		int status = 0;
		waitpid(pid, &status, 0);
		if(got != sizeof st || !WIFEXITED(status) || WEXITSTATUS(status)) {
			fprintf(f_or, "CRASH scenario=%lu P=%u status=%d\n", sc, P, status);
			crashes++;
			break;
		}
		tot.steps += st.steps; tot.loads += st.loads; tot.cas_ok += st.cas_ok; tot.cas_fail += st.cas_fail;
		tot.extracts += st.extracts; tot.extract_null += st.extract_null; tot.peeks += st.peeks;
		tot.msgs += st.msgs; tot.hang += st.hang; tot.viol += st.viol;
		done_scen++;
		if(st.hang)
			break;
	}
	printf("{\"scenarios\":%lu,\"steps\":%lu,\"messages\":%lu,\"loads\":%lu,\"cas_ok\":%lu,\"cas_fail\":%lu,"
	       "\"extracts\":%lu,\"extract_null\":%lu,\"peeks\":%lu,\"hangs\":%lu,\"crashes\":%lu,\"oracle_violations\":%lu,"
	       "\"producers_hist\":{\"1\":%lu,\"2\":%lu,\"3\":%lu,\"4\":%lu},"
	       "\"policy_hist\":{\"uniform\":%lu,\"sticky\":%lu,\"eager_consumer\":%lu,\"lazy_consumer\":%lu,\"wide_cas_window\":%lu,\"burst_before_first_consumer_op\":%lu}}\n",
	    done_scen, tot.steps, tot.msgs, tot.loads, tot.cas_ok, tot.cas_fail, tot.extracts, tot.extract_null,
	    tot.peeks, tot.hang, crashes, tot.viol, hist_p[1], hist_p[2], hist_p[3], hist_p[4], hist_pol[0], hist_pol[1],
	    hist_pol[2], hist_pol[3], hist_pol[4], hist_pol[5]);
	fclose(f_ops); fclose(f_c); fclose(f_or);
	return 0;
}
