/* Deterministic cooperative scheduler for ROOT-Sim worker threads (verification harness only).
 *
 * Worker threads are the core's real pthreads (the core keeps per-thread state in __thread
 * variables), serialised by a token. The strong verif_yield() below hands the token back to
 * the scheduler, which picks the next thread from the seeded PRNG `vrng` (vcommon.h) or from a
 * replay schedule. Between two yields exactly one worker runs, so (seed, parameters) reproduce
 * an execution exactly. Thread indices are the core's `rid`.
 * A step budget turns a hang into a classified result: vs_on_hang() is called (must not return).
 */
#pragma once
#include "vcommon.h"
#include <pthread.h>
#include <unistd.h>
#include <core/core.h>
#include <core/verif.h>

#define VS_MAXT 64
static pthread_mutex_t vs_mu = PTHREAD_MUTEX_INITIALIZER;
static pthread_cond_t vs_cv = PTHREAD_COND_INITIALIZER;
static pthread_key_t vs_key;
static int vs_enabled, vs_n, vs_registered, vs_cur = -1, vs_nalive;
static int vs_alive[VS_MAXT];
static unsigned vs_point[VS_MAXT];
static unsigned long vs_point_cnt[VS_MAXT][32];
static __thread int vs_me = -1;
static uint64_t vs_steps, vs_budget = 4000000, vs_switches;
static unsigned vs_stay = 2; /* probability (x/4) of keeping the token on the same thread */
static unsigned vs_burst = 0; /* mean length of a burst during which one thread keeps the token (0: off) */
static uint64_t vs_burst_left;
static void (*vs_on_hang)(void);
/* optional replay schedule */
static unsigned char *vs_replay;
static size_t vs_replay_n, vs_replay_i;
/* recorded schedule (for replay files) */
static unsigned char *vs_rec;
static size_t vs_rec_n, vs_rec_cap;

static int vs_pick(int me)
{
	int next;
	if(vs_replay && vs_replay_i < vs_replay_n) {
		next = vs_replay[vs_replay_i++];
		if(next < VS_MAXT && vs_alive[next])
			goto out;
	}
	if(vs_burst && me >= 0 && vs_alive[me]) {
		int spinning = vs_point[me] == VP_BARRIER_SPIN_DOWN || vs_point[me] == VP_BARRIER_SPIN_UP;
		if(vs_burst_left && !spinning) {
			vs_burst_left--;
			next = me;
			goto out;
		}
		vs_burst_left = 1 + vrng_below(2 * (uint64_t)vs_burst);
	} else if(me >= 0 && vs_alive[me] && vrng_below(4) < vs_stay) {
		next = me;
		goto out;
	}
	{
		int k = (int)vrng_below((uint64_t)vs_nalive);
		next = -1;
		for(int i = 0; i < VS_MAXT; ++i)
			if(vs_alive[i] && k-- == 0) {
				next = i;
				break;
			}
	}
out:
	if(vs_rec_n == vs_rec_cap) {
		vs_rec_cap = vs_rec_cap ? vs_rec_cap * 2 : 4096;
		vs_rec = realloc(vs_rec, vs_rec_cap);
	}
	vs_rec[vs_rec_n++] = (unsigned char)next;
	return next;
}

static void vs_thread_exit(void *arg)
{
	(void)arg;
	pthread_mutex_lock(&vs_mu);
	vs_alive[vs_me] = 0;
	vs_nalive--;
	if(vs_nalive > 0) {
		vs_cur = vs_pick(-1);
		pthread_cond_broadcast(&vs_cv);
	}
	pthread_mutex_unlock(&vs_mu);
}

static void vs_init(int n_threads)
{
	vs_enabled = 1;
	vs_n = n_threads;
	pthread_key_create(&vs_key, vs_thread_exit);
}

void verif_yield(unsigned point)
{
	if(!vs_enabled)
		return;
	pthread_mutex_lock(&vs_mu);
	if(vs_me < 0) {
		vs_me = (int)rid;
		pthread_setspecific(vs_key, (void *)1);
		vs_alive[vs_me] = 1;
		vs_nalive++;
		vs_registered++;
		/* the core may have clamped the number of threads */
		if(vs_registered == (int)global_config.n_threads) {
			vs_cur = vs_pick(-1);
			pthread_cond_broadcast(&vs_cv);
		}
	} else {
		if(++vs_steps > vs_budget && vs_on_hang) {
			vs_point[vs_me] = point;
			vs_on_hang();
		}
		vs_point[vs_me] = point;
		int next = vs_pick(vs_me);
		if(next != vs_me) {
			vs_switches++;
			vs_cur = next;
			pthread_cond_broadcast(&vs_cv);
		}
	}
	vs_point[vs_me] = point;
	if(point < 32)
		vs_point_cnt[vs_me][point]++;
	while(vs_cur != vs_me)
		pthread_cond_wait(&vs_cv, &vs_mu);
	pthread_mutex_unlock(&vs_mu);
}
