/* Minimal definitions of core globals for harnesses that compile single core files. */
#pragma once
#include <core/core.h>
#include <log/log.h>
#include <stdarg.h>
#include "vhooks_default.h"
struct simulation_configuration global_config;
lp_id_t n_lps_node;
__thread rid_t rid;
nid_t n_nodes = 1;
nid_t nid;
void vlogger(enum log_level level, char *file, unsigned line, const char *fmt, ...)
{
	(void)level; (void)file; (void)line; (void)fmt;
}
