/* Default (weak) implementations of the ROOTSIM_VERIF hooks for harnesses that link the whole
 * core but need neither scheduling nor tracing. A harness overrides them with strong definitions. */
#include <stdint.h>
#include <stddef.h>
#include <sys/time.h>
__attribute__((weak)) void verif_yield(unsigned point) { (void)point; }
__attribute__((weak)) void verif_trace(unsigned kind, uint64_t a, uint64_t b, uint64_t c)
{
	(void)kind; (void)a; (void)b; (void)c;
}
__attribute__((weak)) uint_fast64_t verif_now(void)
{
	struct timeval tv;
	gettimeofday(&tv, NULL);
	return (uint_fast64_t)tv.tv_sec * 1000000U + tv.tv_usec;
}
#ifndef VERIF_BATCH_DEFINED
#define VERIF_BATCH_DEFINED
__attribute__((weak)) unsigned verif_batch(unsigned dflt) { return dflt; }
#endif
