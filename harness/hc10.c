/* C10 / C15(heap half) harness: the REAL heap macros of src/datatypes/heap.h (on src/datatypes/array.h)
 * instantiated exactly as the runtime instantiates them:
 *   h1: heap_declare(struct lp_msg *) with msg_is_before        (src/serial/serial.c)
 *   h2: heap_declare(struct q_elem)   with q_elem_is_before     (src/datatypes/msg_queue.c)
 * driven by seeded random operation sequences (many ties, equal-content messages, heaps growing to
 * thousands of entries and shrinking to 0, heap_insert_n batches, anti-flag flips while queued).
 *
 * usage: hc10 <seed> <n_ops> <ops_out> <c_out> <oracle_out>
 *  ops_out    : one operation line per op (fed to `driver heap`)
 *  c_out      : the C results for the same lines: extracted ordinal, macro value, digest of the WHOLE
 *               array order of both heaps after every op
 *  oracle_out : S oracle, independent of the Lean model: multiset accounting (every inserted message
 *               extracted exactly once, array holds exactly the live ones) and "extracted / heap_min is
 *               minimal" by brute force over the array; one line per failure
 */
#include "vcommon.h"
#include "stubs_min.h"
#include <datatypes/msg_queue.c> /* real code: struct q_elem, q_elem_is_before, heap.h, array.h, msg.h */

uint64_t lid_node_first;
void msg_allocator_free(struct lp_msg *m) { (void)m; }

static heap_declare(struct lp_msg *) h1;
static heap_declare(struct q_elem) h2;

#define CAP 40 /* payload bytes allocated and printed (> MSG_PAYLOAD_BASE_SIZE: extra_pl is exercised) */
#define MSZ (offsetof(struct lp_msg, pl) + CAP)

static FILE *f_ops, *f_c, *f_or;
static unsigned long n_ops, n_ins, n_ext, n_min, n_flip, n_insn, n_clr, n_viol, n_bf1, n_bf2;
static unsigned long n_tie_ins, n_eqc_ins, max_cnt, n_empty_seen, n_realloc_sizes;
static unsigned long hist_cnt[6]; /* heap size at op time: 0, 1-8, 9-64, 65-512, 513-4096, >4096 */

/* message pool: ordinal k -> the two private copies (heap 1 / heap 2) and accounting state */
static struct lp_msg **p1, **p2;
static unsigned char *st1, *st2; /* 0 = never inserted, 1 = in heap, 2 = extracted */
static uint32_t n_msgs, cap_msgs, phase_first;
static unsigned long live1, live2;
static uint32_t *stamp, stamp_gen;

/* content universe used to force ties / equal content */
#define NU 48
static struct { double t; uint32_t fl, ty, sz; unsigned char pl[CAP]; unsigned live; } U[NU];
static double tpool[6] = {0.0, 0.25, 1.0, 1.0000000000000002, 7.5, 1e300};
static unsigned tlive[6];

static void viol(const char *what, long a, long b)
{
	n_viol++;
	fprintf(f_or, "HEAP %s op=%lu a=%ld b=%ld\n", what, n_ops, a, b);
}

static uint32_t new_msg(double t, uint32_t fl, uint32_t ty, uint32_t sz, const unsigned char *pl)
{
	if(n_msgs == cap_msgs) {
		cap_msgs = cap_msgs ? cap_msgs * 2 : 1024;
		p1 = realloc(p1, cap_msgs * sizeof(*p1));
		p2 = realloc(p2, cap_msgs * sizeof(*p2));
		st1 = realloc(st1, cap_msgs);
		st2 = realloc(st2, cap_msgs);
		stamp = realloc(stamp, cap_msgs * sizeof(*stamp));
		memset(stamp, 0, cap_msgs * sizeof(*stamp));
		stamp_gen = 0;
	}
	uint32_t k = n_msgs++;
	for(int c = 0; c < 2; ++c) {
		struct lp_msg *m = malloc(MSZ);
		memset(m, 0, MSZ);
		m->next = (struct lp_msg *)(uintptr_t)vrng(); /* fields the order must ignore: garbage */
		m->dest = vrng_below(16);
		m->dest_t = t;
		m->raw_flags = fl;
		m->m_seq = k;
		m->m_type = ty;
		m->pl_size = sz;
		memcpy(m->pl, pl, CAP);
		if(c) p2[k] = m; else p1[k] = m;
	}
	st1[k] = st2[k] = 0;
	return k;
}

static void print_msg(FILE *f, uint32_t k)
{
	const struct lp_msg *m = p1[k];
	fprintf(f, "%u %llx %u %u %u ", k, (unsigned long long)dbl_bits(m->dest_t), m->raw_flags, m->m_type, m->pl_size);
	fput_hex(f, m->pl, m->pl_size ? CAP : 0);
}

static int tie_mode; /* 0: mostly distinct times, 1: few times, 2: tiny universe (equal contents) */

static uint32_t gen_msg(double t_floor)
{
	unsigned char pl[CAP];
	if(tie_mode == 2 && vrng_below(8)) {
		unsigned u = vrng_below(NU);
		if(U[u].t >= t_floor) {
			n_eqc_ins += U[u].live > 0;
			U[u].live++;
			return new_msg(U[u].t, U[u].fl, U[u].ty, U[u].sz, U[u].pl);
		}
	}
	for(int i = 0; i < CAP; ++i)
		pl[i] = vrng_below(4) ? (unsigned char)vrng_below(3) * 127 : (unsigned char)vrng();
	double t;
	if(tie_mode >= 1 && vrng_below(8)) {
		unsigned ti = vrng_below(6);
		t = tpool[ti];
		if(t >= t_floor) {
			n_tie_ins += tlive[ti] > 0;
			tlive[ti]++;
		}
	} else
		t = bits_dbl((vrng() >> 2) % 0x7fefffffffffffffULL); /* arbitrary non-negative finite */
	if(t < t_floor) t = t_floor;
	uint32_t fl = vrng_below(4) ? 0 : ((uint32_t)vrng_below(4) | ((uint32_t)vrng() & ~3u));
	uint32_t ty = vrng_below(8) ? (uint32_t)vrng_below(4) : (vrng_below(2) ? 65534u : (uint32_t)vrng_below(65534));
	static const uint32_t SZ[] = {0, 0, 1, 2, 8, 32, 33, CAP};
	uint32_t sz = SZ[vrng_below(8)];
	return new_msg(t, fl, ty, sz, pl);
}

static uint64_t dstep(uint64_t h, uint32_t seq, uint32_t fl) { return h * 1000003ULL + ((uint64_t)seq * 2 + (fl & 1)) + 1; }
static uint64_t digest1(void)
{
	uint64_t h = 1469598103934665603ULL;
	for(array_count_t i = 0; i < heap_count(h1); ++i)
		h = dstep(h, heap_items(h1)[i]->m_seq, heap_items(h1)[i]->raw_flags);
	return h;
}
static uint64_t digest2(void)
{
	uint64_t h = 1469598103934665603ULL;
	for(array_count_t i = 0; i < heap_count(h2); ++i)
		h = dstep(h, heap_items(h2)[i].m->m_seq, heap_items(h2)[i].m->raw_flags);
	return h;
}

static void note_size(void)
{
	unsigned long c = heap_count(h1);
	if(c > max_cnt) max_cnt = c;
	hist_cnt[c == 0 ? 0 : c <= 8 ? 1 : c <= 64 ? 2 : c <= 512 ? 3 : c <= 4096 ? 4 : 5]++;
	n_empty_seen += c == 0;
}

/* S oracle: array holds exactly the live messages, each once */
static void account_scan(void)
{
	if(heap_count(h1) != live1) viol("count1", heap_count(h1), live1);
	if(heap_count(h2) != live2) viol("count2", heap_count(h2), live2);
	stamp_gen++;
	for(array_count_t i = 0; i < heap_count(h1); ++i) {
		uint32_t k = heap_items(h1)[i]->m_seq;
		if(heap_items(h1)[i] != p1[k] || st1[k] != 1) viol("slot1-not-live", i, k);
		if(stamp[k] == stamp_gen) viol("slot1-duplicate", i, k);
		stamp[k] = stamp_gen;
	}
	stamp_gen++;
	for(array_count_t i = 0; i < heap_count(h2); ++i) {
		uint32_t k = heap_items(h2)[i].m->m_seq;
		if(heap_items(h2)[i].m != p2[k] || st2[k] != 1) viol("slot2-not-live", i, k);
		if(heap_items(h2)[i].t != p2[k]->dest_t) viol("slot2-cached-t", i, k);
		if(stamp[k] == stamp_gen) viol("slot2-duplicate", i, k);
		stamp[k] = stamp_gen;
	}
}

static bool brute_now(void) { return heap_count(h1) <= 256 || n_ops % 16 == 0; }

/* S oracle: nothing in heap 1 is before m (C10: extraction order = event order) */
static void check_min1(const struct lp_msg *m, const char *what)
{
	n_bf1++;
	for(array_count_t i = 0; i < heap_count(h1); ++i)
		if(msg_is_before(heap_items(h1)[i], m)) {
			viol(what, m->m_seq, heap_items(h1)[i]->m_seq);
			break;
		}
}
/* S oracle: nothing in heap 2 has a smaller time stamp than t (C15: min-timestamp / peek bound) */
static void check_mint2(simtime_t t, uint32_t k, const char *what)
{
	n_bf2++;
	for(array_count_t i = 0; i < heap_count(h2); ++i)
		if(heap_items(h2)[i].t < t) {
			viol(what, k, heap_items(h2)[i].m->m_seq);
			break;
		}
}

static void op_ins(uint32_t k)
{
	fprintf(f_ops, "ins ");
	print_msg(f_ops, k);
	fputc('\n', f_ops);
	struct lp_msg *m1 = p1[k];
	struct q_elem qe = {.t = p2[k]->dest_t, .m = p2[k]};
	array_count_t cap_before = array_capacity(h1);
	array_count_t pos1 = heap_insert(h1, msg_is_before, m1);
	array_count_t pos2 = heap_insert(h2, q_elem_is_before, qe);
	n_realloc_sizes += array_capacity(h1) != cap_before;
	if(st1[k] != 0 || st2[k] != 0) viol("reinsert", k, 0);
	st1[k] = st2[k] = 1;
	live1++; live2++;
	if(heap_items(h1)[pos1] != m1) viol("ins-pos1", pos1, k);
	if(heap_items(h2)[pos2].m != p2[k]) viol("ins-pos2", pos2, k);
	fprintf(f_c, "%u %u %llx %llx\n", (unsigned)pos1, (unsigned)pos2, (unsigned long long)digest1(), (unsigned long long)digest2());
	n_ins++; n_ops++;
	note_size();
}

static void op_insn(unsigned n, double t_floor)
{
	struct lp_msg *a1[16];
	struct q_elem a2[16];
	uint32_t ks[16];
	fprintf(f_ops, "insn");
	for(unsigned i = 0; i < n; ++i) {
		ks[i] = gen_msg(t_floor);
		fputc(' ', f_ops);
		print_msg(f_ops, ks[i]);
		a1[i] = p1[ks[i]];
		a2[i] = (struct q_elem){.t = p2[ks[i]]->dest_t, .m = p2[ks[i]]};
		st1[ks[i]] = st2[ks[i]] = 1;
	}
	fputc('\n', f_ops);
	heap_insert_n(h1, msg_is_before, a1, n);
	heap_insert_n(h2, q_elem_is_before, a2, n);
	live1 += n; live2 += n;
	fprintf(f_c, "%llx %llx\n", (unsigned long long)digest1(), (unsigned long long)digest2());
	n_insn++; n_ops++;
	note_size();
}

/* returns the ordinal extracted from heap 1 (or -1) */
static long op_ext(void)
{
	fprintf(f_ops, "ext\n");
	n_ops++;
	if(heap_is_empty(h1)) { /* callers guard (msg_queue_extract: heap_count ? extract : NULL) */
		if(!heap_is_empty(h2)) viol("desync-empty", 0, 0);
		fprintf(f_c, "empty\n");
		note_size();
		return -1;
	}
	struct lp_msg *r1 = heap_extract(h1, msg_is_before);
	struct q_elem r2 = heap_extract(h2, q_elem_is_before);
	uint32_t k1 = r1->m_seq, k2 = r2.m->m_seq;
	if(st1[k1] != 1) viol("ext1-not-live", k1, st1[k1]);
	if(st2[k2] != 1) viol("ext2-not-live", k2, st2[k2]);
	st1[k1] = 2; st2[k2] = 2;
	live1--; live2--;
	if(r2.t != r2.m->dest_t) viol("ext2-cached-t", k2, 0);
	if(brute_now()) {
		check_min1(r1, "ext1-not-minimal");
		check_mint2(r2.t, k2, "ext2-not-min-time");
	}
	fprintf(f_c, "%u %u %llx %llx\n", k1, k2, (unsigned long long)digest1(), (unsigned long long)digest2());
	n_ext++;
	note_size();
	return k1;
}

static void op_min(void)
{
	fprintf(f_ops, "min\n");
	n_ops++; n_min++;
	if(heap_is_empty(h1)) {
		fprintf(f_c, "empty\n");
		return;
	}
	const struct lp_msg *m1 = heap_min(h1);
	struct q_elem q2 = heap_min(h2);
	if(brute_now()) {
		check_min1(m1, "min1-not-minimal");
		check_mint2(q2.t, q2.m->m_seq, "peek2-not-lower-bound");
	}
	fprintf(f_c, "%u %u %llx\n", m1->m_seq, q2.m->m_seq, (unsigned long long)dbl_bits(q2.t));
}

static void op_cnt(void)
{
	fprintf(f_ops, "cnt\n");
	fprintf(f_c, "%u %u\n", (unsigned)heap_count(h1), (unsigned)heap_count(h2));
	n_ops++;
	account_scan();
}

/* another thread sets MSG_FLAG_ANTI of a queued message (msg copy of heap 2 only) */
static void op_flip(void)
{
	if(heap_is_empty(h2)) return;
	struct lp_msg *m = heap_items(h2)[vrng_below(heap_count(h2))].m;
	m->raw_flags |= MSG_FLAG_ANTI;
	fprintf(f_ops, "flip %u\n", m->m_seq);
	fprintf(f_c, "%llx\n", (unsigned long long)digest2());
	n_ops++; n_flip++;
}

static void op_clr(void)
{
	fprintf(f_ops, "clr\n");
	fprintf(f_c, "ok\n");
	for(array_count_t i = 0; i < heap_count(h1); ++i) st1[heap_items(h1)[i]->m_seq] = 2;
	for(array_count_t i = 0; i < heap_count(h2); ++i) st2[heap_items(h2)[i].m->m_seq] = 2;
	heap_fini(h1); heap_fini(h2);
	heap_init(h1); heap_init(h2);
	for(uint32_t k = phase_first; k < n_msgs; ++k) { /* messages of the finished phase are dead */
		free(p1[k]); free(p2[k]);
		p1[k] = p2[k] = NULL;
	}
	phase_first = n_msgs;
	live1 = live2 = 0;
	for(unsigned u = 0; u < NU; ++u) U[u].live = 0;
	memset(tlive, 0, sizeof(tlive));
	n_ops++; n_clr++;
}

static void drain(void)
{
	while(!heap_is_empty(h1)) {
		if(!vrng_below(16)) op_min();
		op_ext();
	}
	op_ext(); /* the empty case */
	op_cnt();
}

int main(int argc, char **argv)
{
	if(argc < 6) return 2;
	vrng_state = strtoull(argv[1], NULL, 0);
	unsigned long budget = strtoul(argv[2], NULL, 0);
	f_ops = xfopen(argv[3], "w");
	f_c = xfopen(argv[4], "w");
	f_or = xfopen(argv[5], "w");
	heap_init(h1);
	heap_init(h2);
	for(unsigned u = 0; u < NU; ++u) {
		U[u].t = tpool[vrng_below(4)];
		U[u].fl = vrng_below(3) ? 0 : 1;
		U[u].ty = vrng_below(3);
		U[u].sz = vrng_below(3) ? 0 : 2;
		memset(U[u].pl, 0, CAP);
		U[u].pl[1] = (unsigned char)vrng_below(2);
		U[u].pl[5] = (unsigned char)vrng(); /* beyond pl_size: must not matter */
	}
	unsigned phase = 0;
	while(n_ops < budget) {
		op_clr();
		unsigned kind = phase++ % 6;
		tie_mode = vrng_below(3);
		switch(kind) {
		case 0: { /* small heaps, dense random ops */
			unsigned lim = 1 + vrng_below(12);
			for(unsigned i = 0; i < 400; ++i) {
				unsigned r = vrng_below(16);
				if(r < 8 && heap_count(h1) < lim) op_ins(gen_msg(0));
				else if(r < 13) op_ext();
				else if(r < 14) op_min();
				else if(r < 15) op_flip();
				else op_cnt();
			}
			drain();
			break;
		}
		case 1: { /* grow to thousands, shrink to 0 */
			unsigned long target = 64 + vrng_below(budget >= 200000 ? 20000 : 5000);
			while(heap_count(h1) < target) {
				unsigned r = vrng_below(10);
				if(r < 7) op_ins(gen_msg(0));
				else if(r < 9) op_ext();
				else if(vrng_below(2)) op_min(); else op_flip();
			}
			op_cnt();
			while(!heap_is_empty(h1)) {
				unsigned r = vrng_below(10);
				if(r < 3) op_ins(gen_msg(0));
				else op_ext();
				if(!vrng_below(64)) op_min();
			}
			drain();
			break;
		}
		case 2: { /* sawtooth across the array capacities 8,16,32,... (array_reserve doubles at count+1 >= capacity) */
			for(unsigned c = 4; c <= 1100; c = c * 2 + vrng_below(3)) {
				while(heap_count(h1) < c + 2) op_ins(gen_msg(0));
				op_min();
				while(heap_count(h1) > c - 3) op_ext();
			}
			drain();
			break;
		}
		case 3: { /* the serial runtime's pattern: take the minimum, schedule events not before it */
			for(unsigned i = 0; i < 30; ++i) op_ins(gen_msg(0));
			for(unsigned i = 0; i < 1500 && !heap_is_empty(h1); ++i) {
				op_min();
				double now = heap_min(h1)->dest_t;
				unsigned outs = vrng_below(4);
				if(heap_count(h1) > 300) outs = vrng_below(2);
				for(unsigned o = 0; o < outs; ++o) {
					uint32_t k = gen_msg(now);
					/* keep contract V2: skip candidates that would be before the current minimum */
					if(msg_is_before(p1[k], heap_min(h1))) { st1[k] = st2[k] = 2; continue; }
					op_ins(k);
				}
				op_ext();
			}
			drain();
			break;
		}
		case 4: { /* heap_insert_n batches */
			for(unsigned i = 0; i < 200; ++i) {
				unsigned r = vrng_below(8);
				if(r < 3) op_insn(vrng_below(9), 0);
				else if(r < 4) op_ins(gen_msg(0));
				else op_ext();
			}
			drain();
			break;
		}
		case 5: { /* concurrent anti-flag flips while queued (heap 2 only) */
			tie_mode = 2;
			for(unsigned i = 0; i < 1200; ++i) {
				unsigned r = vrng_below(10);
				if(r < 4) op_ins(gen_msg(0));
				else if(r < 6) op_flip();
				else if(r < 9) op_ext();
				else op_min();
			}
			drain();
			break;
		}
		}
	}
	op_clr();
	/* every message that was ever inserted ended up extracted (or dropped by clr) exactly once */
	for(uint32_t k = 0; k < n_msgs; ++k)
		if(st1[k] == 1 || st2[k] == 1) viol("leak", k, 0);
	fprintf(stdout,
	    "{\"ops\":%lu,\"ins\":%lu,\"insn\":%lu,\"ext\":%lu,\"min\":%lu,\"flip\":%lu,\"clr\":%lu,\"messages\":%u,"
	    "\"max_count\":%lu,\"tie_time_inserts\":%lu,\"equal_content_inserts\":%lu,\"empty_seen\":%lu,"
	    "\"capacity_changes\":%lu,\"bruteforce_min1\":%lu,\"bruteforce_mint2\":%lu,\"oracle_violations\":%lu,"
	    "\"size_hist\":{\"0\":%lu,\"1-8\":%lu,\"9-64\":%lu,\"65-512\":%lu,\"513-4096\":%lu,\">4096\":%lu}}\n",
	    n_ops, n_ins, n_insn, n_ext, n_min, n_flip, n_clr, n_msgs, max_cnt, n_tie_ins, n_eqc_ins, n_empty_seen,
	    n_realloc_sizes, n_bf1, n_bf2, n_viol, hist_cnt[0], hist_cnt[1], hist_cnt[2], hist_cnt[3], hist_cnt[4],
	    hist_cnt[5]);
	fclose(f_ops); fclose(f_c); fclose(f_or);
	return 0;
}
