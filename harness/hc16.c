/* C16 harness: the REAL comparator of src/lp/msg.h and q_elem_is_before of
 * src/datatypes/msg_queue.c on generated message pairs/triples.
 * usage: hc16 <seed> <n_random> <ops_out> <c_out> <oracle_out>
 *  ops_out    : one "cmp ..." line per pair (fed to the Lean driver)
 *  c_out      : the C results for the same lines
 *  oracle_out : S oracle — order laws evaluated directly on the C function; one line per failure
 */
#include "vcommon.h"
#include "stubs_min.h"
#include <datatypes/msg_queue.c> /* real code, gives q_elem_is_before + msg.h */

uint64_t lid_node_first;
void msg_allocator_free(struct lp_msg *m) { (void)m; }

static bool c_before(const struct lp_msg *a, const struct lp_msg *b) { return msg_is_before(a, b); }
static bool c_before_ext(const struct lp_msg *a, const struct lp_msg *b) { return msg_is_before_extended(a, b); }
static bool c_qbefore(struct lp_msg *a, struct lp_msg *b)
{
	struct q_elem qa = {.t = a->dest_t, .m = a}, qb = {.t = b->dest_t, .m = b};
	return q_elem_is_before(qa, qb);
}

#define CAP 240 /* bytes of payload buffer actually allocated */
static struct lp_msg *mk(double t, uint32_t flags, uint32_t type, uint32_t size, const unsigned char *bytes)
{
	struct lp_msg *m = malloc(offsetof(struct lp_msg, pl) + CAP);
	memset(m, 0, offsetof(struct lp_msg, pl) + CAP);
	m->next = (struct lp_msg *)(uintptr_t)vrng();
	m->dest = vrng_below(16);
	m->dest_t = t;
	m->raw_flags = flags;
	m->m_seq = (uint32_t)vrng();
	m->m_type = type;
	m->pl_size = size;
	memcpy(m->pl, bytes, CAP);
	return m;
}

static void print_msg(FILE *f, const struct lp_msg *m)
{
	/* the model is given the WHOLE buffer (CAP bytes), not just pl_size bytes */
	fprintf(f, "%llx %u %u %u ", (unsigned long long)dbl_bits(m->dest_t), m->raw_flags, m->m_type, m->pl_size);
	fput_hex(f, m->pl, m->pl_size ? CAP : 0);
}

static FILE *f_ops, *f_c, *f_or;
static unsigned long n_pairs, n_ties, n_equal_content, n_law_checks, n_viol;
static unsigned long hist_size[4]; /* 0, 1..32, 33..200, >200 */

static void emit_pair(struct lp_msg *a, struct lp_msg *b)
{
	fprintf(f_ops, "cmp ");
	print_msg(f_ops, a);
	fputc(' ', f_ops);
	print_msg(f_ops, b);
	fputc('\n', f_ops);
	fprintf(f_c, "%d %d %d\n", c_before(a, b), c_before_ext(a, b), c_qbefore(a, b));
	n_pairs++;
	n_ties += a->dest_t == b->dest_t;
}

static bool same_content(const struct lp_msg *a, const struct lp_msg *b)
{
	return a->dest_t == b->dest_t && (a->raw_flags & 1) == (b->raw_flags & 1) && a->m_type == b->m_type &&
	       a->pl_size == b->pl_size && !memcmp(a->pl, b->pl, a->pl_size);
}

static void viol(const char *law, struct lp_msg *a, struct lp_msg *b, struct lp_msg *c)
{
	n_viol++;
	fprintf(f_or, "LAW %s a=", law);
	print_msg(f_or, a);
	fprintf(f_or, " b=");
	print_msg(f_or, b);
	if(c) {
		fprintf(f_or, " c=");
		print_msg(f_or, c);
	}
	fputc('\n', f_or);
}

/* S oracle: exactly the statement of C16, evaluated on the implementation */
static void laws(struct lp_msg *a, struct lp_msg *b, struct lp_msg *c)
{
	n_law_checks++;
	bool ab = c_before(a, b), ba = c_before(b, a), bc = c_before(b, c), cb = c_before(c, b), ac = c_before(a, c),
	     ca = c_before(c, a);
	if(c_before(a, a)) viol("irrefl", a, a, NULL);
	if(ab && ba) viol("asymm", a, b, NULL);
	if(ab && bc && !ac) viol("trans", a, b, c);
	if(!ab && !ba && !bc && !cb && (ac || ca)) viol("incomp_trans", a, b, c);
	if(!ab && !ba && !same_content(a, b)) viol("incomp_not_same_content", a, b, NULL);
	if(same_content(a, b)) {
		n_equal_content++;
		if(ab || ba) viol("content_only_pair", a, b, NULL);
		if(c_before(a, c) != c_before(b, c) || c_before(c, a) != c_before(c, b))
			viol("content_only", a, b, c);
	}
}

static const double T[] = {0.0, 1.0, 2.5, 1e300};
static const uint32_t TY[] = {0, 1, 7, 65533};
/* event_type is an `unsigned` of the API with only LP_INIT/LP_FINI reserved: far-apart values exercise wrap-around in comparisons */
static const uint32_t TYBIG[] = {65536, 0x10000000u, 0x70000000u, 0x7fffffffu, 0x80000000u, 0xD0000000u, 0xffffffffu};
static const uint32_t SZ[] = {0, 1, 2, 31, 32, 33, 200};

static struct lp_msg *rnd_msg(struct lp_msg *like)
{
	unsigned char buf[CAP];
	for(int i = 0; i < CAP; ++i)
		buf[i] = vrng_below(4) ? (unsigned char)vrng_below(3) * 127 : (unsigned char)vrng();
	double t = T[vrng_below(4)];
	if(!vrng_below(8))
		t = bits_dbl(vrng() >> 2); /* arbitrary non-negative finite */
	uint32_t fl = (uint32_t)vrng_below(4) | ((uint32_t)vrng_below(3) ? 0 : ((uint32_t)vrng() & ~3u));
	uint32_t ty = vrng_below(6) ? TY[vrng_below(4)] : (uint32_t)vrng_below(65534);
	if(!vrng_below(5))
		ty = vrng_below(3) ? TYBIG[vrng_below(7)] : (uint32_t)vrng();
	uint32_t sz = vrng_below(6) ? SZ[vrng_below(7)] : (uint32_t)vrng_below(CAP + 1);
	if(like && vrng_below(2)) { /* derive from an existing message: force ties and near-equal content */
		t = like->dest_t;
		memcpy(buf, like->pl, CAP);
		unsigned k = vrng_below(6);
		if(k >= 1) ty = like->m_type;
		if(k >= 2) sz = like->pl_size;
		if(k >= 3) fl = (like->raw_flags & 1) | ((uint32_t)vrng() & ~3u) | ((uint32_t)vrng_below(2) << 1);
		if(k == 4 && sz) buf[vrng_below(sz)] ^= 1 << vrng_below(8);  /* one payload byte differs */
		if(k == 5 && sz < CAP) buf[sz + vrng_below(CAP - sz)] ^= 0xff;       /* only a byte BEYOND pl_size differs */
	}
	struct lp_msg *m = mk(t, fl, ty, sz, buf);
	hist_size[sz == 0 ? 0 : sz <= 32 ? 1 : sz <= 200 ? 2 : 3]++;
	return m;
}

int main(int argc, char **argv)
{
	if(argc < 6) return 2;
	vrng_state = strtoull(argv[1], NULL, 0);
	unsigned long n = strtoul(argv[2], NULL, 0);
	f_ops = xfopen(argv[3], "w");
	f_c = xfopen(argv[4], "w");
	f_or = xfopen(argv[5], "w");

	/* (1) small universe, exhaustive over pairs, all triples for the laws */
	enum { U = 4 * 3 * 2 * 2 * 3 };
	static struct lp_msg *u[4 * 3 * 2 * 2 * 3 * 3];
	unsigned nu = 0;
	unsigned char z[CAP];
	for(unsigned ti = 0; ti < 3; ++ti)
		for(unsigned an = 0; an < 2; ++an)
			for(unsigned ty = 0; ty < 2; ++ty)
				for(unsigned si = 0; si < 3; ++si) {
					uint32_t sz = si == 0 ? 0 : si == 1 ? 2 : 33;
					unsigned npat = sz ? 3 : 1;
					for(unsigned p = 0; p < npat; ++p) {
						memset(z, 0, CAP);
						if(p == 1) z[sz - 1] = 255;
						if(p == 2) z[0] = 1;
						u[nu++] = mk(T[ti], an | (ti << 2), TY[ty * 3], sz, z);
					}
				}
	for(unsigned i = 0; i < nu; ++i)
		for(unsigned j = 0; j < nu; ++j) {
			emit_pair(u[i], u[j]);
			for(unsigned k = 0; k < nu; ++k)
				laws(u[i], u[j], u[k]);
		}
	unsigned long exhaustive_pairs = n_pairs;

	/* (2) random structured triples */
	for(unsigned long i = 0; i < n; ++i) {
		struct lp_msg *a = rnd_msg(NULL), *b = rnd_msg(a), *c = rnd_msg(vrng_below(2) ? a : b);
		emit_pair(a, b);
		emit_pair(b, c);
		emit_pair(a, c);
		laws(a, b, c);
		laws(c, a, b);
		free(a); free(b); free(c);
	}
	fprintf(stdout,
	    "{\"pairs\":%lu,\"exhaustive_pairs\":%lu,\"universe\":%u,\"ties\":%lu,\"equal_content_pairs\":%lu,"
	    "\"law_checks\":%lu,\"law_violations\":%lu,\"size_hist\":{\"0\":%lu,\"1-32\":%lu,\"33-200\":%lu,\">200\":%lu}}\n",
	    n_pairs, exhaustive_pairs, nu, n_ties, n_equal_content, n_law_checks, n_viol, hist_size[0], hist_size[1],
	    hist_size[2], hist_size[3]);
	fclose(f_ops); fclose(f_c); fclose(f_or);
	return 0;
}
