/* C12 / C05 / C13 harness: the REAL rollbackable buddy allocator (src/mm/buddy/{buddy,multi,ckpt}.c,
 * linked, not included) driven through its API: rs_malloc/rs_calloc/rs_realloc/rs_free,
 * model_allocator_lp_init/fini, model_allocator_checkpoint_take/restore, model_allocator_fossil_lp_collect.
 *
 * usage: hc12 <seed> <mix> <tier-size> <ops_out> <c_out> <oracle_out>
 *   mix        : c12 | c05 | c13  random histories with the op weights of that property
 *                exh | exh13      ALL op sequences of length <tier-size> over a small alphabet (for the small arena);
 *                                 exh13 adds fossil collection and targets between checkpoints
 *   tier-size  : random mixes: total number of ops to generate;  exh: the sequence length
 *   ops_out    : one protocol line per operation (fed to `driver alloc`, see lean/Driver/Alloc.lean)
 *   c_out      : the C results for the same lines (no addresses: arena ordinal + offset, FNV digests)
 *   oracle_out : S oracle - the properties evaluated directly on the implementation against a shadow
 *                interval map kept by the harness; one line `KIND hist=.. op=.. key=value.. line=<op line>`
 *                per failure.  Independent of the Lean model.
 * stdout: one JSON line of statistics.
 *
 * rs_calloc exists in two variants (pinned: unchecked nmemb*size; after repo_patches/rs_calloc_overflow.diff: overflow
 * -> NULL/ENOMEM).  The harness detects the variant by behaviour (detect_calloc_variant) and passes it to the model
 * as the 5th argument of `cfg`; the oracle line CALLOC-OVERFLOW appears only when a wrapped request is SERVED.
 *
 * Built twice: real arena (T=16, B=6) and -DVERIF_B_TOTAL_EXP=8 -DVERIF_B_BLOCK_EXP=4 (256-byte arena).
 */
#include "vcommon.h"
#include "stubs_min.h"
#include <lp/lp.h>
#include <mm/buddy/buddy.h>
#include <mm/buddy/ckpt.h>
#include <mm/buddy/multi.h>
#include <mm/model_allocator.h>
#include <errno.h>
#include <stdarg.h>

/* the globals the three C files need beyond stubs_min.h */
__thread struct lp_ctx *current_lp;
static struct lp_ctx the_lp;
#define MM (the_lp.mm_state)

enum { T = B_TOTAL_EXP, B = B_BLOCK_EXP, NLONG = 1 << (T - B + 1), NLEAF = 1 << (T - B) };
#define ARENA_BYTES ((uint64_t)1 << T)
#define PER_ARENA ((uint64_t)offsetof(struct buddy_checkpoint, base_mem))
#define BASE ((uint64_t)(offsetof(struct mm_checkpoint, chkps) + sizeof(struct buddy_state *)))
#define N_ARENAS ((unsigned)array_count(MM.buddies))
#define ARENA(i) (array_get_at(MM.buddies, (i)))

static FILE *f_ops, *f_c, *f_or;

/* ------------------------------------------------------------------ canonical digests, fill pattern */

#define FNV_INIT 14695981039346656037ULL
static uint64_t fnv(uint64_t h, const unsigned char *p, size_t n)
{
	for(size_t i = 0; i < n; ++i) {
		h ^= p[i];
		h *= 1099511628211ULL;
	}
	return h;
}

static unsigned char pat(unsigned seed, unsigned i) { return (unsigned char)((seed * 167 + i * 13 + i / 251) % 256); }

/* smallest k with 2^k >= n (n >= 1) */
static unsigned ceil_log2(uint64_t n) { return n <= 1 ? 0 : 64 - (unsigned)__builtin_clzll(n - 1); }
static unsigned floor_log2(uint64_t n) { return 63 - (unsigned)__builtin_clzll(n); }
/* the order the specification promises for a request of n bytes, 1 <= n <= 2^T */
static unsigned order_of(uint64_t n) { return ceil_log2(n) < B ? B : ceil_log2(n); }

/* ------------------------------------------------------------------ statistics */

enum kind { K_CFG, K_MALLOC, K_CALLOC, K_REALLOC, K_FREE, K_FILL, K_CKPT, K_RESTORE, K_FOSSIL, K_N };
static const char *const kind_name[K_N] = {"cfg", "malloc", "calloc", "realloc", "free", "fill", "ckpt", "restore", "fossil"};
enum { HMAX = 12 };
static unsigned long n_hist, n_ops[K_N], n_alloc_ok[K_N], n_alloc_fail[K_N];
static unsigned long n_realloc_same, n_realloc_moved, n_null_ptr_ops;
static unsigned long ins_hist[HMAX][HMAX]; /* [#arenas before][index of the new arena] */
static unsigned long n_hist_mid_ins, n_mid_ins, max_arenas, max_logs, max_live_blocks, max_live_bytes;
static unsigned long n_restore_at, n_restore_between, n_restore_beyond, restore_dropped[4], n_restore_reinit,
    n_restore_reinit_mid, n_restore_then_ckpt, n_restore_repeat;
static unsigned long fossil_dist[6], fossil_dropped[4], n_fossil_then_restore;
static unsigned long n_checks, n_viol, n_exh_seq, n_calloc_overflow;
static bool hist_mid_ins;

/* ------------------------------------------------------------------ S oracle: reporting */

static unsigned long op_idx; /* index of the current op inside its history */
static char opline[160];     /* protocol line of the current op */
static bool hist_unsafe;     /* set by the first failure: the shadow (and hence the API contract of the following
                              * ops) cannot be trusted to follow the implementation any more; the history ends */

static void fail(const char *kind, const char *fmt, ...)
{
	n_viol++;
	hist_unsafe = true;
	if(n_viol > 100) /* the first ones are the interesting ones; the counter keeps counting */
		return;
	fprintf(f_or, "%s hist=%lu op=%lu ", kind, n_hist, op_idx);
	va_list ap;
	va_start(ap, fmt);
	vfprintf(f_or, fmt, ap);
	va_end(ap);
	fprintf(f_or, " line=%s\n", opline);
	fflush(f_or);
}
#define CHECK(cond, kind, ...) (n_checks++, (cond) ? true : (fail(kind, __VA_ARGS__), false))

/* ------------------------------------------------------------------ shadow interval map of live blocks */

struct blk {
	struct buddy_state *ar; /* the arena (identity = address; never printed) */
	uint32_t off;           /* offset of the block in base_mem */
	unsigned k;             /* the block is 2^k bytes */
	uint64_t req;           /* size the caller asked for */
	unsigned char *bytes;   /* private copy of the expected content, 2^k bytes */
};
struct shadow {
	struct blk *b; /* sorted by (ar, off) */
	unsigned n, cap;
	uint64_t live_bytes;
};
static struct shadow sh;

static unsigned char *blk_mem(const struct blk *b) { return b->ar->base_mem + b->off; }

static void shadow_clear(struct shadow *s)
{
	for(unsigned i = 0; i < s->n; ++i)
		free(s->b[i].bytes);
	free(s->b);
	memset(s, 0, sizeof(*s));
}

static struct shadow shadow_copy(const struct shadow *s)
{
	struct shadow c = {.b = malloc((s->n + 1) * sizeof(*c.b)), .n = s->n, .cap = s->n + 1, .live_bytes = s->live_bytes};
	for(unsigned i = 0; i < s->n; ++i) {
		c.b[i] = s->b[i];
		c.b[i].bytes = malloc((size_t)1 << s->b[i].k);
		memcpy(c.b[i].bytes, s->b[i].bytes, (size_t)1 << s->b[i].k);
	}
	return c;
}

/* first index whose block is not before (ar, off) */
static unsigned shadow_lower_bound(const struct shadow *s, const struct buddy_state *ar, uint32_t off)
{
	unsigned i = 0;
	while(i < s->n && ((uintptr_t)s->b[i].ar < (uintptr_t)ar || (s->b[i].ar == ar && s->b[i].off < off)))
		++i;
	return i;
}

/* index of the live block starting exactly at (ar, off), or -1 */
static int shadow_find(const struct shadow *s, const struct buddy_state *ar, uint32_t off)
{
	unsigned i = shadow_lower_bound(s, ar, off);
	return i < s->n && s->b[i].ar == ar && s->b[i].off == off ? (int)i : -1;
}

/* insert a new block; false (nothing inserted) if it overlaps a live block */
static bool shadow_insert(struct shadow *s, struct buddy_state *ar, uint32_t off, unsigned k, uint64_t req)
{
	unsigned i = shadow_lower_bound(s, ar, off);
	if(i < s->n && s->b[i].ar == ar && s->b[i].off < off + ((uint64_t)1 << k))
		return false;
	if(i > 0 && s->b[i - 1].ar == ar && s->b[i - 1].off + ((uint64_t)1 << s->b[i - 1].k) > off)
		return false;
	if(s->n == s->cap) {
		s->cap = s->cap ? 2 * s->cap : 16;
		s->b = realloc(s->b, s->cap * sizeof(*s->b));
	}
	memmove(&s->b[i + 1], &s->b[i], (s->n - i) * sizeof(*s->b));
	s->b[i] = (struct blk){.ar = ar, .off = off, .k = k, .req = req, .bytes = calloc(1, (size_t)1 << k)};
	s->n++;
	s->live_bytes += (uint64_t)1 << k;
	return true;
}

static void shadow_remove(struct shadow *s, unsigned i)
{
	s->live_bytes -= (uint64_t)1 << s->b[i].k;
	free(s->b[i].bytes);
	memmove(&s->b[i], &s->b[i + 1], (s->n - i - 1) * sizeof(*s->b));
	s->n--;
}

/* store pat(seed, i) for i in [lo, 2^k) into the real block and into the shadow copy */
static void blk_fill(struct blk *b, unsigned seed, uint64_t lo)
{
	for(uint64_t i = lo; i < (uint64_t)1 << b->k; ++i)
		blk_mem(b)[i] = b->bytes[i] = pat(seed, (unsigned)i);
}

/* ------------------------------------------------------------------ shadow of the checkpoint log */

struct snap {
	array_count_t ref;           /* ref_i (re-based by every fossil collection) */
	struct mm_checkpoint *c;     /* identity of the checkpoint buffer */
	struct shadow sh;            /* live set with contents at the checkpoint */
	uint64_t full;               /* full_ckpt_size at the checkpoint */
	unsigned n_arenas;           /* arenas that existed, in address order, and their longest[] */
	struct buddy_state **arenas;
	uint8_t *longest;
};
enum { MAX_LOGS = 40 };
static struct snap snaps[MAX_LOGS];
static unsigned n_snaps;

static void snap_clear(struct snap *s)
{
	shadow_clear(&s->sh);
	free(s->arenas);
	free(s->longest);
}

/* index of the newest snapshot with ref <= x (the caller guarantees snaps[0].ref <= x) */
static unsigned snap_index_for(array_count_t x)
{
	unsigned i = n_snaps - 1;
	while(i > 0 && snaps[i].ref > x)
		--i;
	return i;
}

/* ------------------------------------------------------------------ state before the current op */

static struct buddy_state **pre_arenas;
static unsigned n_pre, cap_pre;
static uint64_t pre_full;

static void pre_op(void)
{
	n_pre = N_ARENAS;
	if(n_pre > cap_pre)
		pre_arenas = realloc(pre_arenas, (cap_pre = 2 * n_pre) * sizeof(*pre_arenas));
	for(unsigned i = 0; i < n_pre; ++i)
		pre_arenas[i] = ARENA(i);
	pre_full = MM.full_ckpt_size;
	errno = 0;
}

/* index in mm_state.buddies at which an arena appeared during the op, 0 if none did */
static unsigned new_arena_index(void)
{
	if(N_ARENAS == n_pre)
		return 0;
	unsigned i = 0;
	while(i < n_pre && ARENA(i) == pre_arenas[i])
		++i;
	ins_hist[n_pre < HMAX ? n_pre : HMAX - 1][i < HMAX ? i : HMAX - 1]++;
	if(i < n_pre) {
		n_mid_ins++;
		hist_mid_ins = true;
	}
	return i;
}

static int arena_ordinal(const struct buddy_state *ar)
{
	for(unsigned i = 0; i < N_ARENAS; ++i)
		if(ARENA(i) == ar)
			return (int)i;
	return -1;
}

/* the arena whose base_mem contains p, or NULL */
static struct buddy_state *arena_of(const void *p)
{
	for(unsigned i = 0; i < N_ARENAS; ++i) {
		uintptr_t lo = (uintptr_t)ARENA(i)->base_mem;
		if((uintptr_t)p >= lo && (uintptr_t)p < lo + ARENA_BYTES)
			return ARENA(i);
	}
	return NULL;
}

/* ------------------------------------------------------------------ S oracle: allocator state vs. shadow */

/* what buddy_init must produce: node i lies floor(log2(i+1)) levels below the root */
static uint8_t init_longest(unsigned i) { return (uint8_t)(T - floor_log2((uint64_t)i + 1)); }

/* bytes of the regions a longest[] array marks as saved in a checkpoint: independent recursive walk */
static uint64_t visited_bytes(const uint8_t *lon, unsigned i, unsigned l)
{
	if(lon[i] == 0)
		return (uint64_t)1 << l;
	if(lon[i] == l || l == B)
		return 0;
	return visited_bytes(lon, 2 * i + 1, l - 1) + visited_bytes(lon, 2 * i + 2, l - 1);
}

/* leaf -> 1 + index of the live shadow block covering it, 0 if free (for the arena being checked) */
static int leaf_owner[NLEAF];

/* The value longest[] must hold for a node of level l whose first leaf is lf, given the live blocks:
 * l if no byte below it is live; 0 if it lies inside one live block; else the max of its children
 * (which is again 0 if both halves are occupied).  *own = common owner of its leaves, -1 if mixed. */
static unsigned expected_longest(unsigned l, unsigned lf, int *own)
{
	if(l == B) {
		*own = leaf_owner[lf];
		return *own ? 0 : B;
	}
	int own_l, own_r;
	unsigned el = expected_longest(l - 1, lf, &own_l);
	unsigned er = expected_longest(l - 1, lf + (1U << (l - 1 - B)), &own_r);
	*own = own_l == own_r ? own_l : -1;
	if(*own == 0)
		return l;
	if(*own > 0)
		return 0;
	return el > er ? el : er;
}

/* compare every node the allocator can still reach (no ancestor allocated or completely free) */
static bool tree_walk(const uint8_t *lon, unsigned i, unsigned l, unsigned lf, int ord)
{
	int own;
	unsigned e = expected_longest(l, lf, &own);
	if(lon[i] != e) {
		fail("TREE", "arena=%d node=%u level=%u longest=%u expected=%u", ord, i, l, lon[i], e);
		return false;
	}
	if(e == 0 || e == l)
		return true;
	return tree_walk(lon, 2 * i + 1, l - 1, lf, ord) && tree_walk(lon, 2 * i + 2, l - 1, lf + (1U << (l - 1 - B)), ord);
}

static void check_tree(const struct buddy_state *ar, int ord)
{
	memset(leaf_owner, 0, sizeof(leaf_owner));
	for(unsigned j = 0; j < sh.n; ++j)
		if(sh.b[j].ar == ar)
			for(uint64_t lf = sh.b[j].off >> B; lf < (sh.b[j].off + ((uint64_t)1 << sh.b[j].k)) >> B; ++lf)
				leaf_owner[lf] = (int)j + 1;
	n_checks++;
	tree_walk(ar->longest, 0, T, 0, ord);
}

/* the checks performed after EVERY op */
static void check_state(void)
{
	/* arenas: sorted by address, never released while the LP lives */
	for(unsigned i = 1; i < N_ARENAS; ++i)
		CHECK((uintptr_t)ARENA(i - 1) < (uintptr_t)ARENA(i), "ARENAS_UNSORTED", "index=%u", i);
	CHECK(N_ARENAS >= n_pre && N_ARENAS <= n_pre + 1, "ARENA_COUNT", "before=%u after=%u", n_pre, N_ARENAS);
	for(unsigned i = 0; i < n_pre; ++i)
		CHECK(arena_ordinal(pre_arenas[i]) >= 0, "ARENA_LOST", "old_index=%u", i);
	/* accounting: what the next checkpoint will need */
	uint64_t want = BASE + N_ARENAS * PER_ARENA + sh.live_bytes;
	CHECK(MM.full_ckpt_size == want, "FULL_CKPT_SIZE", "is=%llu expected=%llu arenas=%u live_bytes=%llu",
	    (unsigned long long)MM.full_ckpt_size, (unsigned long long)want, N_ARENAS, (unsigned long long)sh.live_bytes);
	/* frame / stability: every byte of every live block is what the model program stored last */
	for(unsigned j = 0; j < sh.n; ++j) {
		struct blk *b = &sh.b[j];
		if(!CHECK(arena_ordinal(b->ar) >= 0, "BLOCK_ARENA_LOST", "off=%u", b->off))
			continue;
		if(!CHECK(!memcmp(blk_mem(b), b->bytes, (size_t)1 << b->k), "CONTENT", "arena=%d off=%u k=%u",
		       arena_ordinal(b->ar), b->off, b->k))
			memcpy(b->bytes, blk_mem(b), (size_t)1 << b->k); /* report a corruption once */
	}
	/* the allocation trees describe exactly the live set */
	for(unsigned i = 0; i < N_ARENAS; ++i)
		check_tree(ARENA(i), (int)i);
	/* the checkpoint log is the one the shadow expects */
	if(CHECK(array_count(MM.logs) == n_snaps, "LOG_COUNT", "is=%u expected=%u", (unsigned)array_count(MM.logs), n_snaps))
		for(unsigned j = 0; j < n_snaps; ++j) {
			struct mm_log *l = &array_get_at(MM.logs, j);
			CHECK(l->ref_i == snaps[j].ref, "LOG_REF", "index=%u is=%u expected=%u", j, (unsigned)l->ref_i,
			    (unsigned)snaps[j].ref);
			if(CHECK(l->c == snaps[j].c, "LOG_CKPT", "index=%u", j))
				CHECK(l->c->ckpt_size == snaps[j].full, "LOG_CKPT_SIZE", "index=%u is=%llu expected=%llu", j,
				    (unsigned long long)l->c->ckpt_size, (unsigned long long)snaps[j].full);
		}
	if(N_ARENAS > max_arenas) max_arenas = N_ARENAS;
	if(n_snaps > max_logs) max_logs = n_snaps;
	if(sh.n > max_live_blocks) max_live_blocks = sh.n;
	if(sh.live_bytes > max_live_bytes) max_live_bytes = sh.live_bytes;
}

/* ------------------------------------------------------------------ emitting one op line / result line */

/* call after the op was executed, opline was composed and the shadow was updated */
static void finish_op(enum kind kd, const char *res, const char *extra)
{
	n_ops[kd]++;
	fprintf(f_ops, "%s\n", opline);
	check_state();
	uint64_t L = FNV_INIT, D = FNV_INIT;
	for(unsigned i = 0; i < N_ARENAS; ++i)
		L = fnv(L, ARENA(i)->longest, NLONG);
	for(unsigned j = 0; j < sh.n; ++j) /* shadow order = (arena ordinal, offset) order: buddies is sorted */
		if(arena_ordinal(sh.b[j].ar) >= 0)
			D = fnv(D, blk_mem(&sh.b[j]), (size_t)1 << sh.b[j].k);
	fprintf(f_c, "%s f=%llu L=%llx D=%llx%s\n", res, (unsigned long long)MM.full_ckpt_size, (unsigned long long)L,
	    (unsigned long long)D, extra);
	op_idx++;
}

static char *refs_string(char *buf, size_t n)
{
	size_t o = 0;
	buf[0] = 0;
	for(unsigned j = 0; j < array_count(MM.logs) && o + 16 < n; ++j)
		o += (size_t)snprintf(buf + o, n - o, j ? ",%u" : "%u", (unsigned)array_get_at(MM.logs, j).ref_i);
	return buf;
}

/* "a o" of a live shadow block (ordinal in the CURRENT buddies array), "-" for NULL */
static const char *ptr_arg(int bi, char *buf)
{
	if(bi < 0)
		return "-";
	sprintf(buf, "%d %u", arena_ordinal(sh.b[bi].ar), sh.b[bi].off);
	return buf;
}

enum expect { X_PTR, X_NULL, X_ENOMEM, X_EINVAL };
static enum expect expect_alloc(uint64_t n) { return n == 0 ? X_NULL : n > ARENA_BYTES ? X_ENOMEM : X_PTR; }

/* canonical result of an allocation call; checks the failure cases (result kind, nothing changed) */
static const char *alloc_result(enum kind kd, void *p, enum expect x, char *buf)
{
	static const char *const xname[] = {"p", "null", "enomem", "einval"};
	enum expect got = p ? X_PTR : errno == 0 ? X_NULL : errno == ENOMEM ? X_ENOMEM : errno == EINVAL ? X_EINVAL : 99;
	CHECK(got == x, "RESULT_KIND", "got=%s errno=%d expected=%s", got <= X_EINVAL ? xname[got] : "?", errno, xname[x]);
	if(!p) {
		n_alloc_fail[kd]++;
		CHECK(MM.full_ckpt_size == pre_full, "FAIL_CHANGED_SIZE", "before=%llu after=%llu", (unsigned long long)pre_full,
		    (unsigned long long)MM.full_ckpt_size);
		CHECK(N_ARENAS == n_pre, "FAIL_NEW_ARENA", "before=%u after=%u", n_pre, N_ARENAS);
		if(got > X_EINVAL)
			sprintf(buf, "errno%d", errno);
		return got <= X_EINVAL ? xname[got] : buf;
	}
	n_alloc_ok[kd]++;
	struct buddy_state *ar = arena_of(p);
	if(ar)
		sprintf(buf, "p %d %u", arena_ordinal(ar), (unsigned)((unsigned char *)p - ar->base_mem));
	else
		sprintf(buf, "p ? ?");
	return buf;
}

/* S oracle for a freshly returned block serving a request of n bytes; enters it into the shadow.
 * Returns its shadow index, or -1 (reported; the shadow cannot represent the state). */
static int accept_block(void *p, uint64_t n)
{
	struct buddy_state *ar = arena_of(p);
	if(!CHECK(ar != NULL, "PTR_OUTSIDE_ARENAS", "n=%llu", (unsigned long long)n) || n == 0 || n > ARENA_BYTES)
		return -1; /* (a pointer for a request that must fail was already reported as RESULT_KIND) */
	/* The size of a block cannot be observed from the pointer.  The shadow reserves [off, off + 2^k) with the k the
	 * specification promises; that the allocator reserved exactly these bytes is what OVERLAP (here), TREE and
	 * FULL_CKPT_SIZE (check_state) establish.  TOO_SMALL only guards the harness' own formula for k. */
	unsigned k = order_of(n);
	uint32_t off = (uint32_t)((unsigned char *)p - ar->base_mem);
	CHECK(((uint64_t)1 << k) >= n, "TOO_SMALL", "k=%u n=%llu", k, (unsigned long long)n);
	CHECK(off % ((uint64_t)1 << k) == 0, "MISALIGNED_OFFSET", "off=%u k=%u", off, k);
	CHECK((uintptr_t)p % 16 == 0, "MISALIGNED_PTR", "off=%u low_bits=%u", off, (unsigned)((uintptr_t)p % 16));
	if(!CHECK(off + ((uint64_t)1 << k) <= ARENA_BYTES, "BLOCK_CROSSES_ARENA_END", "off=%u k=%u", off, k) ||
	    !CHECK(shadow_insert(&sh, ar, off, k, n), "OVERLAP", "arena=%d off=%u k=%u", arena_ordinal(ar), off, k))
		return -1;
	return shadow_find(&sh, ar, off);
}

/* ------------------------------------------------------------------ the operations */

static bool lp_live;

/* Which rs_calloc does the tree under test have?  Detected by behaviour, once, on a scratch LP state:
 * rs_calloc(2^63 + 8, 2) asks for 2^64 + 16 bytes; the pinned code wraps the product to 16 and returns a block,
 * the code after repo_patches/rs_calloc_overflow.diff returns NULL with ENOMEM.  The answer goes to the model as
 * the last token of every `cfg` line. */
static int calloc_checked = -1;
static void detect_calloc_variant(void)
{
	memset(&the_lp, 0, sizeof(the_lp));
	current_lp = &the_lp;
	model_allocator_lp_init(&MM);
	errno = 0;
	void *p = rs_calloc(((size_t)1 << 63) | 8, 2);
	calloc_checked = p == NULL && errno == ENOMEM;
	if(p)
		rs_free(p);
	errno = 0;
	model_allocator_lp_fini(&MM);
}

static void op_cfg(void)
{
	if(calloc_checked < 0)
		detect_calloc_variant();
	if(lp_live)
		model_allocator_lp_fini(&MM);
	shadow_clear(&sh);
	while(n_snaps)
		snap_clear(&snaps[--n_snaps]);
	memset(&the_lp, 0, sizeof(the_lp));
	current_lp = &the_lp;
	model_allocator_lp_init(&MM);
	lp_live = true;
	n_hist++;
	n_hist_mid_ins += hist_mid_ins;
	hist_mid_ins = hist_unsafe = false;
	op_idx = 0;
	n_pre = 0;
	sprintf(opline, "cfg %u %u %llu %llu %d", (unsigned)T, (unsigned)B, (unsigned long long)PER_ARENA,
	    (unsigned long long)BASE, calloc_checked);
	finish_op(K_CFG, "ok", "");
}

static void op_malloc(uint64_t n)
{
	unsigned seed = (unsigned)vrng_below(65536);
	char buf[48];
	pre_op();
	void *p = rs_malloc(n);
	sprintf(opline, "malloc %llu %u %u", (unsigned long long)n, new_arena_index(), seed);
	const char *res = alloc_result(K_MALLOC, p, expect_alloc(n), buf);
	int bi = p ? accept_block(p, n) : -1;
	if(bi >= 0)
		blk_fill(&sh.b[bi], seed, 0);
	finish_op(K_MALLOC, res, "");
}

static void op_calloc(uint64_t nmemb, uint64_t size)
{
	unsigned seed = (unsigned)vrng_below(65536);
	/* size_t arithmetic: wraps mod 2^64 like the implementation's.  The shadow follows the implementation (a block
	 * for the WRAPPED product), the defect itself is reported below as a finding of its own. */
	uint64_t tot = nmemb * size;
	bool overflow = size != 0 && nmemb > UINT64_MAX / size;
	char buf[48];
	pre_op();
	void *p = rs_calloc(nmemb, size);
	sprintf(opline, "calloc %llu %llu %u %u", (unsigned long long)nmemb, (unsigned long long)size, new_arena_index(), seed);
	/* the overflow-checked variant must refuse an overflowing product with ENOMEM; the pinned one serves the
	 * wrapped product (reported below) */
	enum expect x = overflow && calloc_checked ? X_ENOMEM : expect_alloc(tot);
	const char *res = alloc_result(K_CALLOC, p, x, buf);
	if(p && overflow && n_calloc_overflow++ < 3) { /* C12: a successful allocation is at least as big as requested */
		fprintf(f_or, "CALLOC-OVERFLOW hist=%lu op=%lu nmemb=%llu size=%llu wrapped_product=%llu line=%s\n", n_hist, op_idx,
		    (unsigned long long)nmemb, (unsigned long long)size, (unsigned long long)tot, opline);
		fflush(f_or);
	}
	int bi = p ? accept_block(p, tot) : -1;
	if(bi >= 0) {
		struct blk *b = &sh.b[bi];
		uint64_t nz = 0;
		while(nz < tot && blk_mem(b)[nz] == 0)
			++nz;
		CHECK(nz == tot, "CALLOC_NOT_ZERO", "off=%u first_nonzero=%llu tot=%llu", b->off, (unsigned long long)nz,
		    (unsigned long long)tot);
		memcpy(b->bytes, blk_mem(b), tot);
		blk_fill(b, seed, tot);
	}
	finish_op(K_CALLOC, res, "");
}

/* bi = shadow index of the block to reallocate, -1 for NULL */
static void op_realloc(int bi, uint64_t n)
{
	unsigned seed = (unsigned)vrng_below(65536);
	char buf[48], abuf[48];
	const char *arg = ptr_arg(bi, abuf); /* ordinals BEFORE the call */
	void *p = bi < 0 ? NULL : blk_mem(&sh.b[bi]);
	struct blk old = bi < 0 ? (struct blk){0} : sh.b[bi];
	uint64_t old_size = bi < 0 ? 0 : (uint64_t)1 << old.k;
	n_null_ptr_ops += bi < 0;
	pre_op();
	void *q = rs_realloc(p, n);
	sprintf(opline, "realloc %s %llu %u %u", arg, (unsigned long long)n, new_arena_index(), seed);
	enum expect x = n == 0 ? (p ? X_NULL : X_EINVAL) : expect_alloc(n);
	const char *res = alloc_result(K_REALLOC, q, x, buf);
	if(q && q == p) { /* served in place: the block must have been big enough; nothing else may change */
		n_realloc_same++;
		CHECK(old_size >= n, "REALLOC_IN_PLACE_TOO_SMALL", "off=%u k=%u n=%llu", old.off, old.k, (unsigned long long)n);
		sh.b[bi].req = n;
	} else if(q) { /* moved: new block holds the common prefix, old block is gone */
		n_realloc_moved++;
		uint64_t keep = n < old_size ? n : old_size;
		int qi = accept_block(q, n);
		if(qi >= 0) {
			struct blk *b = &sh.b[qi];
			if(p)
				CHECK(!memcmp(blk_mem(b), old.bytes, keep), "REALLOC_PREFIX", "old_off=%u new_off=%u keep=%llu",
				    old.off, b->off, (unsigned long long)keep);
			memcpy(b->bytes, blk_mem(b), keep);
			blk_fill(b, seed, keep);
			if(p)
				shadow_remove(&sh, (unsigned)shadow_find(&sh, old.ar, old.off));
		}
	} /* failed: the old block stays live and intact (check_state compares it) */
	finish_op(K_REALLOC, res, "");
}

static void op_free(int bi)
{
	char abuf[48];
	sprintf(opline, "free %s", ptr_arg(bi, abuf));
	n_null_ptr_ops += bi < 0;
	pre_op();
	rs_free(bi < 0 ? NULL : blk_mem(&sh.b[bi]));
	CHECK(errno == 0, "FREE_ERRNO", "errno=%d", errno);
	if(bi >= 0)
		shadow_remove(&sh, (unsigned)bi);
	finish_op(K_FREE, "ok", "");
}

static void op_fill(int bi)
{
	unsigned seed = (unsigned)vrng_below(65536);
	char abuf[48];
	sprintf(opline, "fill %s %u", ptr_arg(bi, abuf), seed);
	pre_op();
	blk_fill(&sh.b[bi], seed, 0);
	finish_op(K_FILL, "ok", "");
}

/* contract: ref is greater than every logged ref */
static void op_ckpt(array_count_t ref)
{
	char extra[64 + 12 * MAX_LOGS], rbuf[12 * MAX_LOGS + 16];
	sprintf(opline, "ckpt %u", (unsigned)ref);
	pre_op();
	model_allocator_checkpoint_take(&MM, ref);
	uint64_t w = 0;
	if(CHECK(array_count(MM.logs) == n_snaps + 1, "CKPT_LOG_COUNT", "is=%u expected=%u", (unsigned)array_count(MM.logs),
	       n_snaps + 1)) {
		/* walk the checkpoint just pushed: how many bytes did the implementation write, for which arenas */
		struct mm_log *l = &array_get_at(MM.logs, n_snaps);
		struct mm_checkpoint *ckp = l->c;
		struct buddy_checkpoint *r = (struct buddy_checkpoint *)ckp->chkps;
		unsigned char *end = (unsigned char *)ckp + MM.full_ckpt_size; /* the buffer is mm_alloc(full_ckpt_size) */
		unsigned n_rec = 0;
		while(r->orig != NULL && (unsigned char *)r + PER_ARENA + sizeof(r->orig) <= end) {
			CHECK(n_rec < N_ARENAS && r->orig == ARENA(N_ARENAS - 1 - n_rec), "CKPT_RECORD_ORDER", "record=%u", n_rec);
			r = (struct buddy_checkpoint *)(r->base_mem + visited_bytes(r->longest, 0, T));
			n_rec++;
			if(!CHECK((unsigned char *)r + sizeof(r->orig) <= end, "CKPT_WALK_PAST_END", "record=%u", n_rec))
				break;
		}
		w = (uint64_t)((unsigned char *)&r->orig + sizeof(r->orig) - (unsigned char *)ckp);
		CHECK(n_rec == N_ARENAS, "CKPT_RECORDS", "records=%u arenas=%u", n_rec, N_ARENAS);
		CHECK(l->ref_i == ref, "CKPT_REF", "is=%u", (unsigned)l->ref_i);
		CHECK(w == MM.full_ckpt_size && ckp->ckpt_size == MM.full_ckpt_size, "CKPT_SIZE",
		    "written=%llu ckpt_size=%llu full_ckpt_size=%llu", (unsigned long long)w, (unsigned long long)ckp->ckpt_size,
		    (unsigned long long)MM.full_ckpt_size);
		CHECK(MM.full_ckpt_size == pre_full, "CKPT_CHANGED_SIZE", "before=%llu", (unsigned long long)pre_full);
		/* remember the state this checkpoint must reproduce */
		struct snap *s = &snaps[n_snaps++];
		*s = (struct snap){.ref = ref, .c = ckp, .sh = shadow_copy(&sh), .full = MM.full_ckpt_size, .n_arenas = N_ARENAS};
		s->arenas = malloc((N_ARENAS + 1) * sizeof(*s->arenas));
		s->longest = malloc((size_t)(N_ARENAS + 1) * NLONG);
		for(unsigned i = 0; i < N_ARENAS; ++i) {
			s->arenas[i] = ARENA(i);
			memcpy(s->longest + (size_t)i * NLONG, ARENA(i)->longest, NLONG);
		}
	}
	sprintf(extra, " w=%llu refs=%s", (unsigned long long)w, refs_string(rbuf, sizeof(rbuf)));
	finish_op(K_CKPT, "ok", extra);
}

/* contract: the log is not empty and x >= ref of logs[0] */
static void op_restore(array_count_t x)
{
	char res[32], extra[32 + 12 * MAX_LOGS], rbuf[12 * MAX_LOGS + 16];
	unsigned idx = snap_index_for(x);
	sprintf(opline, "restore %u", (unsigned)x);
	pre_op();
	array_count_t r = model_allocator_checkpoint_restore(&MM, x);
	/* statistics: where the target lies relative to the checkpoints */
	if(x == snaps[idx].ref) n_restore_at++;
	else if(idx + 1 < n_snaps) n_restore_between++;
	else n_restore_beyond++;
	restore_dropped[n_snaps - 1 - idx < 3 ? n_snaps - 1 - idx : 3]++;
	/* the newest checkpoint not after x is chosen; later ones are discarded */
	struct snap *s = &snaps[idx];
	CHECK(r == s->ref, "RESTORE_REF", "x=%u returned=%u expected=%u", (unsigned)x, (unsigned)r, (unsigned)s->ref);
	while(n_snaps > idx + 1)
		snap_clear(&snaps[--n_snaps]);
	/* the live set and every live byte are those of the checkpoint (check_state compares the bytes) */
	shadow_clear(&sh);
	sh = shadow_copy(&s->sh);
	/* trees: as saved for the arenas that existed, freshly initialised for the ones created later */
	unsigned n_old = 0, n_reinit_mid = 0;
	for(unsigned i = 0; i < N_ARENAS; ++i) {
		unsigned j = 0;
		while(j < s->n_arenas && s->arenas[j] != ARENA(i))
			++j;
		if(j < s->n_arenas) {
			n_old++;
			CHECK(!memcmp(ARENA(i)->longest, s->longest + (size_t)j * NLONG, NLONG), "RESTORE_TREE", "arena=%u", i);
		} else {
			bool fresh = true;
			for(unsigned m = 0; m < NLONG; ++m)
				fresh &= ARENA(i)->longest[m] == init_longest(m);
			CHECK(fresh, "RESTORE_NEW_ARENA_NOT_REINIT", "arena=%u", i);
			n_reinit_mid += n_old < s->n_arenas; /* a new arena that sits before an old one */
		}
	}
	CHECK(n_old == s->n_arenas, "RESTORE_ARENA_LOST", "found=%u expected=%u", n_old, s->n_arenas);
	uint64_t want = s->full + (uint64_t)(N_ARENAS - n_old) * PER_ARENA;
	CHECK(MM.full_ckpt_size == want, "RESTORE_FULL_CKPT_SIZE", "is=%llu snapshot=%llu new_arenas=%u expected=%llu",
	    (unsigned long long)MM.full_ckpt_size, (unsigned long long)s->full, N_ARENAS - n_old, (unsigned long long)want);
	n_restore_reinit += N_ARENAS > n_old;
	n_restore_reinit_mid += n_reinit_mid > 0;
	sprintf(res, "r %u", (unsigned)r);
	sprintf(extra, " refs=%s", refs_string(rbuf, sizeof(rbuf)));
	finish_op(K_RESTORE, res, extra); /* check_state: remaining logs are exactly snaps[0..idx] */
}

/* contract: the log is not empty and tgt >= ref of logs[0] */
static void op_fossil(array_count_t tgt)
{
	char res[32], extra[32 + 12 * MAX_LOGS], rbuf[12 * MAX_LOGS + 16];
	unsigned idx = snap_index_for(tgt);
	uint64_t L0 = FNV_INIT, L1 = FNV_INIT;
	for(unsigned i = 0; i < N_ARENAS; ++i)
		L0 = fnv(L0, ARENA(i)->longest, NLONG);
	sprintf(opline, "fossil %u", (unsigned)tgt);
	pre_op();
	array_count_t r = model_allocator_fossil_lp_collect(&MM, tgt);
	fossil_dist[tgt - snaps[idx].ref < 5 ? tgt - snaps[idx].ref : 5]++;
	fossil_dropped[idx < 3 ? idx : 3]++;
	/* the newest checkpoint not after tgt is kept together with all later ones, re-based to start at 0 */
	CHECK(r == snaps[idx].ref, "FOSSIL_REF", "tgt=%u returned=%u expected=%u", (unsigned)tgt, (unsigned)r,
	    (unsigned)snaps[idx].ref);
	array_count_t base = snaps[idx].ref;
	for(unsigned j = 0; j < idx; ++j)
		snap_clear(&snaps[j]);
	memmove(&snaps[0], &snaps[idx], (n_snaps - idx) * sizeof(snaps[0]));
	n_snaps -= idx;
	for(unsigned j = 0; j < n_snaps; ++j)
		snaps[j].ref -= base;
	CHECK(array_count(MM.logs) > 0 && array_get_at(MM.logs, 0).ref_i == 0, "FOSSIL_FIRST_NOT_ZERO", "count=%u",
	    (unsigned)array_count(MM.logs));
	/* the allocator state proper is untouched (check_state: contents, accounting, kept logs and their buffers) */
	for(unsigned i = 0; i < N_ARENAS; ++i)
		L1 = fnv(L1, ARENA(i)->longest, NLONG);
	CHECK(L0 == L1 && MM.full_ckpt_size == pre_full && N_ARENAS == n_pre, "FOSSIL_CHANGED_STATE", "full_before=%llu after=%llu",
	    (unsigned long long)pre_full, (unsigned long long)MM.full_ckpt_size);
	sprintf(res, "r %u", (unsigned)r);
	sprintf(extra, " refs=%s", refs_string(rbuf, sizeof(rbuf)));
	finish_op(K_FOSSIL, res, extra);
}

/* ------------------------------------------------------------------ random histories */

/* dummy chunks of about the size of an arena, allocated and released between ops so that the system
 * allocator hands out arena addresses in varying order (insertion position in mm_state.buddies) */
enum { N_DUMMY = 6 };
static void *dummy[N_DUMMY];
static void dummy_churn(void)
{
	unsigned i = (unsigned)vrng_below(N_DUMMY);
	if(dummy[i]) {
		free(dummy[i]);
		dummy[i] = NULL;
	} else
		dummy[i] = malloc(sizeof(struct buddy_state) - vrng_below(16));
}

/* histories of many small blocks (deep, varied trees) alternate with histories using the whole size range */
static bool hist_small_sizes;

static uint64_t rnd_size(void)
{
	static const uint64_t special[] = {0, 1, 1ULL << B, (1ULL << B) + 1, 1ULL << T, (1ULL << T) + 1};
	unsigned c = (unsigned)vrng_below(32);
	if(c < 10) { /* 2^j - 1, 2^j, 2^j + 1 for j in 0..T+1 */
		uint64_t pow2 = (uint64_t)1 << vrng_below(hist_small_sizes && vrng_below(8) ? B + 4 : T + 2);
		return pow2 - 1 + vrng_below(3);
	}
	if(c < 13)
		return special[vrng_below(hist_small_sizes && vrng_below(4) ? 4 : 6)];
	if(c < 14) { /* huge */
		unsigned h = (unsigned)vrng_below(3);
		return h == 0 ? 1ULL << 63 : h == 1 ? UINT64_MAX : vrng() | (1ULL << 40);
	}
	if(c < 26) /* a few leaves */
		return 1 + vrng_below(8ULL << B);
	return 1 + vrng_below(hist_small_sizes ? 16ULL << B : ARENA_BYTES / 4);
}

/* overflowing products only in the c12 mix (rs_calloc does not check the multiplication: known finding of C12) */
static void rnd_calloc(bool with_overflow)
{
	unsigned a;
	uint64_t s;
	switch(vrng_below(with_overflow ? 12 : 10) + (with_overflow ? 0 : 2)) {
	case 0: /* product overflows 2^64: 2^a * (2^(64-a) + c) wraps to c * 2^a, small but "wrong" */
		a = 1 + (unsigned)vrng_below(8);
		s = vrng_below((ARENA_BYTES >> a) + 2);
		op_calloc(1ULL << a, (1ULL << (64 - a)) + s);
		return;
	case 1: /* overflowing, wrapped product still too big */
		op_calloc(1ULL << 33, (1ULL << 31) + 1);
		return;
	case 2: /* zero product */
		if(vrng_below(2)) op_calloc(0, rnd_size());
		else op_calloc(rnd_size(), 0);
		return;
	case 3: /* exactly 2^T */
		a = (unsigned)vrng_below(T + 1);
		op_calloc(1ULL << a, 1ULL << (T - a));
		return;
	case 4: /* just above 2^T */
		a = (unsigned)vrng_below(T + 1);
		op_calloc(1ULL << a, (1ULL << (T - a)) + 1);
		return;
	default:
		s = 1 + vrng_below(4ULL << B);
		op_calloc(1 + vrng_below(vrng_below(4) ? 8 : ARENA_BYTES / s), s);
	}
}

struct weights {
	unsigned w[K_N]; /* indexed by enum kind; K_CFG unused */
};
static const struct weights MIX_C12 = {{0, 32, 10, 18, 13, 9, 7, 5, 2}};
static const struct weights MIX_C05 = {{0, 18, 5, 10, 9, 12, 22, 20, 4}};
static const struct weights MIX_C13 = {{0, 18, 4, 8, 7, 10, 23, 14, 16}};

static int rnd_block(void) { return sh.n ? (int)vrng_below(sh.n) : -1; }

static int biggest_block(void)
{
	int best = -1;
	for(unsigned j = 0; j < sh.n; ++j)
		if(best < 0 || sh.b[j].k > sh.b[best].k)
			best = (int)j;
	return best;
}

static array_count_t next_ref(bool small_gaps)
{
	if(!n_snaps)
		return (array_count_t)vrng_below(vrng_below(4) ? 1 : 6);
	array_count_t gap = 1 + (array_count_t)vrng_below(small_gaps || vrng_below(8) ? 4 : 1000);
	return snaps[n_snaps - 1].ref + gap;
}

/* a legal restore / fossil target: at a logged ref, a small distance after one, or beyond the last */
static array_count_t rnd_target(bool small_dist)
{
	/* bias towards the newest checkpoints, but reach all of them */
	unsigned i = vrng_below(3) ? n_snaps - 1 - (unsigned)vrng_below(n_snaps < 3 ? n_snaps : 3) : (unsigned)vrng_below(n_snaps);
	switch(vrng_below(small_dist ? 2 : 4)) {
	case 0: return snaps[i].ref;
	case 1: return snaps[i].ref + (array_count_t)vrng_below(5);
	case 2: /* strictly between two checkpoints if there is room, else at */
		if(i + 1 < n_snaps && snaps[i + 1].ref - snaps[i].ref > 1)
			return snaps[i].ref + 1 + (array_count_t)vrng_below(snaps[i + 1].ref - snaps[i].ref - 1);
		return snaps[i].ref;
	default: return snaps[n_snaps - 1].ref + (array_count_t)vrng_below(1000);
	}
}

static void random_history(const struct weights *mix, bool is_c05, bool is_c13)
{
	unsigned len = 100 + (unsigned)vrng_below(201);
	/* some histories grow to many arenas, starting at a random point (often after checkpoints were taken) */
	unsigned grow_target = vrng_below(3) ? 0 : (T >= 12 ? 4 : 6) + (unsigned)vrng_below(3);
	unsigned grow_from = (unsigned)vrng_below(len / 2);
	uint64_t live_cap = (T >= 12 ? 5 : 10) * ARENA_BYTES;
	unsigned wsum = 0;
	for(unsigned k = 0; k < K_N; ++k)
		wsum += mix->w[k];
	enum kind forced = K_N; /* follow-up op decided by the previous one */
	hist_small_sizes = vrng_below(2);

	op_cfg();
	for(unsigned n = 0; n < len && !hist_unsafe; ++n) {
		if(!vrng_below(4))
			dummy_churn();
		enum kind kd = forced;
		forced = K_N;
		if(kd == K_N) {
			unsigned r = (unsigned)vrng_below(wsum);
			for(kd = K_MALLOC; r >= mix->w[kd]; ++kd)
				r -= mix->w[kd];
		}
		bool is_alloc = kd == K_MALLOC || kd == K_CALLOC || kd == K_REALLOC;
		/* growth: requests of order T or T-1 until enough arenas exist */
		if(is_alloc && grow_target && n >= grow_from && N_ARENAS < grow_target && vrng_below(2)) {
			unsigned k = T - (unsigned)vrng_below(2);
			op_malloc(((uint64_t)1 << k) - vrng_below((uint64_t)1 << (k - 1))); /* any size of order k */
			continue;
		}
		/* keep the live volume bounded (cost of the model run): free instead, biggest blocks first */
		if(is_alloc && (sh.live_bytes > live_cap || sh.n > 300)) {
			op_free(vrng_below(2) ? biggest_block() : rnd_block());
			continue;
		}
		if((kd == K_RESTORE || kd == K_FOSSIL) && !n_snaps)
			kd = K_CKPT;
		if(kd == K_CKPT && n_snaps >= MAX_LOGS - 8)
			kd = is_c13 ? K_FOSSIL : K_RESTORE;
		if((kd == K_FREE || kd == K_FILL) && !sh.n)
			kd = K_MALLOC;
		switch(kd) {
		case K_MALLOC: op_malloc(rnd_size()); break;
		case K_CALLOC: rnd_calloc(!is_c05 && !is_c13); break;
		case K_REALLOC: {
			int bi = vrng_below(10) ? rnd_block() : -1;
			uint64_t sz = rnd_size();
			if(bi >= 0 && !vrng_below(3)) { /* same order, one order up or down */
				unsigned k = sh.b[bi].k + (unsigned)vrng_below(3);
				sz = k <= B ? 1 + vrng_below(1ULL << B) : (1ULL << (k - 2)) + 1 + vrng_below(1ULL << (k - 2));
			}
			op_realloc(bi, sz);
			break;
		}
		case K_FREE: op_free(vrng_below(30) ? rnd_block() : -1); break;
		case K_FILL: op_fill(rnd_block()); break;
		case K_CKPT: op_ckpt(next_ref(is_c13)); break;
		case K_RESTORE:
			op_restore(rnd_target(is_c13));
			/* C05: the NEXT checkpoint is the one a wrong full_ckpt_size corrupts; also repeated restores */
			if(is_c05 && vrng_below(2)) {
				forced = vrng_below(4) ? K_CKPT : K_RESTORE;
				n_restore_then_ckpt += forced == K_CKPT;
				n_restore_repeat += forced == K_RESTORE;
			}
			break;
		case K_FOSSIL:
			op_fossil(rnd_target(true));
			if(is_c13 && vrng_below(2)) { /* C13: then roll back into the kept range */
				forced = K_RESTORE;
				n_fossil_then_restore++;
			}
			break;
		default: break;
		}
	}
}

/* ------------------------------------------------------------------ exhaustive enumeration (small arena) */

/* Alphabet at a state: malloc of each order, malloc 0, malloc 2^T+1, free of each live block, realloc of each
 * live block to each order, ckpt (ref = last + 1), restore to each logged ref.
 * Variant exh13: ckpt with ref = last + 2; restore and fossil to each logged ref and to each logged ref + 1.
 * Executes choice c (0 <= c < returned count) unless c < 0; returns the number of choices at this state. */
static bool exh_fossil;

static unsigned exh_step(int c)
{
	unsigned n_ord = T - B + 1, n_live = sh.n;
	unsigned total = n_ord + 2 + n_live + n_live * n_ord + 1 + (exh_fossil ? 4 * n_snaps : n_snaps);
	if(c < 0)
		return total;
	unsigned u = (unsigned)c;
	if(u < n_ord)
		op_malloc(1ULL << (B + u));
	else if((u -= n_ord) == 0)
		op_malloc(0);
	else if(u == 1)
		op_malloc(ARENA_BYTES + 1);
	else if((u -= 2) < n_live)
		op_free((int)u);
	else if((u -= n_live) < n_live * n_ord)
		op_realloc((int)(u / n_ord), 1ULL << (B + u % n_ord));
	else if((u -= n_live * n_ord) == 0)
		op_ckpt(n_snaps ? snaps[n_snaps - 1].ref + (exh_fossil ? 2 : 1) : 0);
	else if(!exh_fossil)
		op_restore(snaps[u - 1].ref);
	else if((u -= 1) < 2 * n_snaps)
		op_restore(snaps[u / 2].ref + u % 2);
	else
		op_fossil(snaps[(u - 2 * n_snaps) / 2].ref + u % 2);
	return total;
}

/* all sequences of exactly `len` ops, depth first, each re-executed from a fresh allocator */
static void exhaustive(unsigned len)
{
	enum { MAXLEN = 16 };
	unsigned choice[MAXLEN] = {0}, count[MAXLEN];
	if(len > MAXLEN)
		len = MAXLEN;
	for(;;) {
		op_cfg();
		for(unsigned d = 0; d < len; ++d) {
			count[d] = hist_unsafe ? 1 : exh_step(-1); /* a history the shadow cannot follow is cut short */
			if(!hist_unsafe)
				exh_step((int)choice[d]);
		}
		n_exh_seq++;
		/* odometer: count[d] depends only on choice[0..d-1] */
		int d = (int)len - 1;
		while(d >= 0 && choice[d] + 1 >= count[d])
			choice[d--] = 0;
		if(d < 0)
			break;
		choice[d]++;
	}
}

/* ------------------------------------------------------------------ main */

static void json_array(const char *name, const unsigned long *v, unsigned n)
{
	printf("\"%s\":[", name);
	for(unsigned i = 0; i < n; ++i)
		printf(i ? ",%lu" : "%lu", v[i]);
	printf("],");
}

int main(int argc, char **argv)
{
	if(argc < 7) {
		fprintf(stderr, "usage: %s <seed> c12|c05|c13|exh|exh13 <tier-size> <ops_out> <c_out> <oracle_out>\n", argv[0]);
		return 2;
	}
	vrng_state = strtoull(argv[1], NULL, 0);
	const char *mix = argv[2];
	unsigned long size = strtoul(argv[3], NULL, 0);
	f_ops = xfopen(argv[4], "w");
	f_c = xfopen(argv[5], "w");
	f_or = xfopen(argv[6], "w");

	if(!strcmp(mix, "exh") || !strcmp(mix, "exh13")) {
		exh_fossil = !strcmp(mix, "exh13");
		exhaustive((unsigned)size);
	} else {
		bool is_c05 = !strcmp(mix, "c05"), is_c13 = !strcmp(mix, "c13");
		if(!is_c05 && !is_c13 && strcmp(mix, "c12"))
			return 2;
		const struct weights *w = is_c05 ? &MIX_C05 : is_c13 ? &MIX_C13 : &MIX_C12;
		unsigned long total = 0;
		while(total < size) {
			random_history(w, is_c05, is_c13);
			total = 0;
			for(unsigned k = 0; k < K_N; ++k)
				total += n_ops[k];
		}
	}
	n_hist_mid_ins += hist_mid_ins;
	if(lp_live)
		model_allocator_lp_fini(&MM);
	shadow_clear(&sh);
	while(n_snaps)
		snap_clear(&snaps[--n_snaps]);
	free(pre_arenas);
	for(unsigned i = 0; i < N_DUMMY; ++i)
		free(dummy[i]);

	printf("{\"T\":%u,\"B\":%u,\"calloc_overflow_checked\":%d,\"mix\":\"%s\",\"histories\":%lu,\"exhaustive_sequences\":%lu,", (unsigned)T, (unsigned)B, calloc_checked, mix,
	    n_hist, n_exh_seq);
	unsigned long total = 0;
	printf("\"ops\":{");
	for(unsigned k = 0; k < K_N; ++k) {
		printf("%s\"%s\":%lu", k ? "," : "", kind_name[k], n_ops[k]);
		total += n_ops[k];
	}
	printf("},\"ops_total\":%lu,", total);
	printf("\"alloc_ok\":{\"malloc\":%lu,\"calloc\":%lu,\"realloc\":%lu},", n_alloc_ok[K_MALLOC], n_alloc_ok[K_CALLOC],
	    n_alloc_ok[K_REALLOC]);
	printf("\"alloc_fail\":{\"malloc\":%lu,\"calloc\":%lu,\"realloc\":%lu},", n_alloc_fail[K_MALLOC], n_alloc_fail[K_CALLOC],
	    n_alloc_fail[K_REALLOC]);
	printf("\"realloc_in_place\":%lu,\"realloc_moved\":%lu,\"null_pointer_args\":%lu,", n_realloc_same, n_realloc_moved,
	    n_null_ptr_ops);
	printf("\"max_arenas\":%lu,\"max_logs\":%lu,\"max_live_blocks\":%lu,\"max_live_bytes\":%lu,", max_arenas, max_logs,
	    max_live_blocks, max_live_bytes);
	printf("\"new_arena_at\":{"); /* "<arenas before>:<index>" -> count */
	bool first = true;
	for(unsigned a = 0; a < HMAX; ++a)
		for(unsigned i = 0; i < HMAX; ++i)
			if(ins_hist[a][i]) {
				printf("%s\"%u:%u\":%lu", first ? "" : ",", a, i, ins_hist[a][i]);
				first = false;
			}
	printf("},\"new_arena_not_at_end\":%lu,\"histories_with_new_arena_not_at_end\":%lu,", n_mid_ins, n_hist_mid_ins);
	printf("\"restore_at\":%lu,\"restore_between\":%lu,\"restore_beyond_last\":%lu,", n_restore_at, n_restore_between,
	    n_restore_beyond);
	json_array("restore_dropped_logs_0_1_2_more", restore_dropped, 4);
	printf("\"restore_reinit_arena\":%lu,\"restore_reinit_arena_before_old_one\":%lu,\"restore_then_ckpt\":%lu,"
	       "\"restore_then_restore\":%lu,",
	    n_restore_reinit, n_restore_reinit_mid, n_restore_then_ckpt, n_restore_repeat);
	json_array("fossil_distance_0_1_2_3_4_more", fossil_dist, 6);
	json_array("fossil_dropped_logs_0_1_2_more", fossil_dropped, 4);
	printf("\"fossil_then_restore\":%lu,\"calloc_overflow_served\":%lu,\"oracle_checks\":%lu,\"oracle_violations\":%lu}\n",
	    n_fossil_then_restore, n_calloc_overflow, n_checks, n_viol);
	fclose(f_ops);
	fclose(f_c);
	fclose(f_or);
	return 0;
}
