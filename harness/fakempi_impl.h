/* Fake MPI library with an ADVERSARIAL PEER RANK (harness only; see fakempi/mpi.h).
 *
 * The real src/distributed/mpi.c runs unchanged on top of these functions. This process is rank 0 of 2;
 * rank 1 ("the peer") is played here, deterministically from the harness PRNG (vrng), as a *legal but hostile*
 * environment of a ROOT-Sim rank:
 *   E1  every remote event carries a unique id (raw_flags id bits, m_seq) stamped exactly like gvt_remote_msg_send();
 *   E2  every anti-message refers to one event of the peer, at most one anti per event; it may be delivered before
 *       or after that event (arbitrary reordering and finite delay of everything in flight, control messages included);
 *   E3  time stamps respect the GVT protocol: the value the peer contributes to the min all-reduce is a lower bound of
 *       every event it sends later, of every message it sent in the new colour, and of the (hidden) send time of
 *       every event it cancels later; it never falls below the last GVT;
 *   E4  the sum-scatter accounts for exactly the old-colour messages the peer has sent (events and anti-messages);
 *   E5  everything in flight is eventually delivered.
 * The peer also reflects: events this rank sends to it may trigger responses, which the peer cancels when this rank
 * cancels their cause.
 * Time stamps are quarters (tq), like everywhere in the harness. Runs only under the token scheduler (one worker
 * thread runs at a time), so no locking.
 */
#pragma once
#include <mpi.h>
#include <lp/msg.h>
#include <distributed/control_msg.h>
#include <float.h>
#include <lp/lp.h>

#define FM_INBOX (1u << 16)
#define FM_SENT (1u << 18)
#define FM_TQ_INF (1ULL << 61)

struct fm_item {
	int size;
	unsigned char *bytes;
	unsigned age;
};
static struct fm_item fm_inbox[FM_INBOX];
static unsigned fm_inbox_n;

struct fm_sent {
	uint32_t raw_id, m_seq; /* raw_id: id bits + colour bit 0, as stamped */
	uint64_t dest, tq, send_tq;
	int cancelled;
	int cause; /* index into fm_recv of the event of this rank that caused it, or -1 */
};
static struct fm_sent *fm_sent;
static unsigned fm_sent_n;

struct fm_recv {
	uint32_t raw_id, m_seq;
	uint64_t tq;
	int cancelled;
};
static struct fm_recv *fm_recv;
static unsigned fm_recv_n;

/* peer parameters (hrun keys pev, pcancel, preflect, plag, pspread) */
static unsigned fm_budget = 300;    /* autonomous events the peer sends in total */
static unsigned fm_cancel_pct = 25; /* chance (percent per activity) of cancelling one of its events */
static unsigned fm_reflect_pct = 30;
static unsigned fm_lag = 3;         /* collectives: polls before the peer "enters" (0..lag) */
static unsigned fm_spread = 16;     /* new events: tq in [floor, floor+spread] */
static unsigned fm_cancel_span = 400;
static unsigned fm_hold;             /* hold this rank's new-colour messages in flight while a GVT round is open */
static int fm_round_open;
static unsigned fm_late_burst = 6;   /* cancellations fired when this rank announces termination */
static unsigned fm_max_age = 40;    /* a message in flight is force-delivered after that many probes */
static unsigned fm_ntypes = 2;
#define fm_first_lp ((uint64_t)lid_node_first)
#define fm_n_local ((uint64_t)n_lps_node)

static int fm_phase;                /* colour of the peer */
static int fm_flip_pending;
static uint32_t fm_seq[2][2];       /* [peer thread][colour] like remote_msg_seq[colour][dest] */
static uint32_t fm_sent_colour[2];  /* messages (events + antis) sent per colour since last accounted */
static uint64_t fm_floor, fm_commit, fm_newmin = FM_TQ_INF, fm_last_gvt, fm_last_ours;
static unsigned fm_window = 24; /* the peer's virtual time stays within this distance of this rank's last reported minimum */
static int fm_stopped, fm_term_sent, fm_round_active;
/* collectives */
static int fm_sc_wait = -1, fm_mn_wait = -1; /* polls left before completion; -1: none pending */
static uint32_t fm_sc_ours, fm_sc_theirs;
static uint32_t *fm_sc_res;
static double fm_mn_ours, *fm_mn_res;
/* statistics */
static unsigned long fm_dup_ids;
static unsigned long fm_n_ev, fm_n_anti, fm_n_anti_first, fm_n_resp, fm_n_recv_ev, fm_n_recv_anti, fm_n_rounds, fm_n_forced,
    fm_n_dup_content;

static inline double fm_tq_dbl(uint64_t tq) { return tq >= FM_TQ_INF ? DBL_MAX : (double)tq / 4.0; }
static inline uint64_t fm_dbl_tq(double t) { return t >= 1e18 ? FM_TQ_INF : (uint64_t)(t * 4.0); }

static void fm_post(const void *buf, int size)
{
	if(fm_inbox_n >= FM_INBOX) {
		fprintf(stderr, "fakempi: inbox overflow\n");
		abort();
	}
	fm_inbox[fm_inbox_n].size = size;
	fm_inbox[fm_inbox_n].bytes = malloc((size_t)size);
	memcpy(fm_inbox[fm_inbox_n].bytes, buf, (size_t)size);
	fm_inbox[fm_inbox_n].age = 0;
	fm_inbox_n++;
}

static void fm_post_ctrl(enum msg_ctrl_code c)
{
	fm_post(&c, (int)sizeof(c));
}

static void fm_flip(void)
{
	fm_phase ^= 1;
	fm_flip_pending = 0;
	fm_newmin = FM_TQ_INF;
}

/* the peer sends an event to a local LP of this rank */
static int fm_send_event(uint64_t dest, uint64_t tq, uint64_t send_tq, unsigned type, unsigned size, unsigned fillbyte, int cause)
{
	if(fm_sent_n >= FM_SENT)
		return -1;
	size_t tot = offsetof(struct lp_msg, pl) + (size > MSG_PAYLOAD_BASE_SIZE ? size : MSG_PAYLOAD_BASE_SIZE) + 8;
	struct lp_msg *m = calloc(1, tot);
	unsigned pr = (unsigned)vrng_below(2);
	m->dest = dest;
	m->dest_t = (double)tq / 4.0;
	m->m_type = type;
	m->pl_size = size;
	memset(m->pl, (int)(fillbyte % 3), size);
	if(size > 32)
		((unsigned char *)m + offsetof(struct lp_msg, pl))[size - 1] = (unsigned char)((fillbyte >> 2) & 3);
	m->m_seq = (fm_seq[pr][fm_phase]++ << 1) | (uint32_t)fm_phase;
	m->raw_flags = (1U << (MAX_THREADS_EXP + 2)) | ((pr + 1) << 2) | (uint32_t)fm_phase;
	struct fm_sent *s = &fm_sent[fm_sent_n];
	s->raw_id = m->raw_flags;
	s->m_seq = m->m_seq;
	s->dest = dest;
	s->tq = tq;
	s->send_tq = send_tq;
	s->cancelled = 0;
	s->cause = cause;
	fm_post(msg_remote_data(m), (int)msg_remote_size(m));
	free(m);
	fm_sent_colour[fm_phase]++;
	if(tq < fm_newmin)
		fm_newmin = tq;
	fm_n_ev++;
	return (int)fm_sent_n++;
}

static void fm_send_anti(unsigned i)
{
	struct fm_sent *s = &fm_sent[i];
	struct lp_msg *m = calloc(1, sizeof(*m));
	unsigned pr = ((s->raw_id >> 2) & ((1U << MAX_THREADS_EXP) - 1)) - 1;
	m->dest = s->dest;
	m->dest_t = (double)s->tq / 4.0;
	m->raw_flags = s->raw_id | ((uint32_t)fm_phase << 1);
	m->m_seq = s->m_seq;
	++fm_seq[pr & 1][fm_phase];
	s->cancelled = 1;
	fm_post(msg_remote_data(m), (int)msg_remote_anti_size());
	free(m);
	fm_sent_colour[fm_phase]++;
	if(s->tq < fm_newmin)
		fm_newmin = s->tq;
	fm_n_anti++;
}

/* spontaneous activity of the peer; called from the probe */
static void fm_peer_act(void)
{
	if(fm_flip_pending && !vrng_below(3))
		fm_flip();
	/* a stopped peer sends no new autonomous events (budget 0) but may still cancel what is legally cancellable */
	unsigned k = (unsigned)vrng_below(8);
	if(k >= 3)
		return;
	for(unsigned j = 0; j <= k; ++j) {
		if(vrng_below(100) < fm_cancel_pct && fm_sent_n) {
			/* cancel one of the recent autonomous events that is still legally cancellable */
			/* mostly old events (likely processed by now: the receiver must roll back), sometimes recent ones */
			unsigned span = fm_sent_n < fm_cancel_span ? fm_sent_n : fm_cancel_span;
			if(vrng_below(4) == 0 && span > 8)
				span = 8;
			unsigned i = fm_sent_n - 1 - (unsigned)vrng_below(span);
			if(!fm_sent[i].cancelled && fm_sent[i].cause < 0 && fm_sent[i].send_tq >= fm_commit &&
			    fm_sent[i].send_tq >= fm_last_gvt)
				fm_send_anti(i);
			continue;
		}
		if(!fm_budget)
			continue;
		fm_budget--;
		if(fm_floor < fm_last_ours + fm_window)
			fm_floor += vrng_below(4); /* the peer's own virtual time advances */
		uint64_t tq = fm_floor + vrng_below(fm_spread + 1) * (vrng_below(4) ? 1 : 4);
		uint64_t send_tq = fm_floor;
		unsigned type = (unsigned)vrng_below(fm_ntypes > 1 ? fm_ntypes - 1 : 1);
		unsigned size = GM_SIZES[vrng_below(8)];
		/* few distinct contents: equal-content simultaneous events with different ids are frequent */
		int i = fm_send_event(fm_first_lp + vrng_below(fm_n_local), tq, send_tq, type, size, (unsigned)vrng_below(4), -1);
		if(i >= 0 && !vrng_below(6)) { /* cancelled at once: the anti-message races its event */
			fm_send_anti((unsigned)i);
			fm_n_anti_first++;
		}
	}
	if(!fm_budget && !fm_stopped)
		fm_stopped = 1;
}

/* messages of this rank on their way to the peer: delivered after an arbitrary finite delay (model events and anti-messages;
 * control messages are handled at once). What is counted at SEND time per colour is what this rank must report in the
 * sum-scatter (S oracle `s_sent_count_wrong`); what arrives at the peer below the last GVT is a GVT-safety violation seen from
 * the receiving side (S oracle `s_peer_below_gvt`): an in-flight message is protected only by its sender's accumulator. */
struct fm_out { int size; unsigned char *bytes; int colour; unsigned age; };
static struct fm_out fm_outbox[FM_INBOX];
static unsigned fm_outbox_n;
static uint32_t fm_from_us_colour[2];
static unsigned long fm_sent_count_wrong, fm_peer_below_gvt, fm_n_delayed;
static void fm_peer_receive(const void *buf, int size);
static void fm_outbox_deliver(unsigned i)
{
	struct fm_out o = fm_outbox[i];
	fm_outbox[i] = fm_outbox[--fm_outbox_n];
	fm_peer_receive(o.bytes + msg_preamble_size(), o.size);
	free(o.bytes);
}
/* deliver some of the messages in flight to the peer; `must` = colour whose messages must all arrive now (-1: none) */
static void fm_outbox_progress(int must)
{
	for(unsigned i = 0; i < fm_outbox_n;) {
		struct fm_out *o = &fm_outbox[i];
		/* fm_hold: while a GVT round is open nothing but the old-colour messages the protocol waits for is delivered, so
		 * new-colour messages stay in flight across the peer's report (they are protected by this rank's accumulator only) */
		if(o->colour == must || (!(fm_hold && fm_round_open) && (++o->age > fm_max_age || vrng_below(3) == 0)))
			fm_outbox_deliver(i);
		else
			++i;
	}
}

/* this rank sent something to the peer: it arrives now */
static void fm_peer_receive(const void *buf, int size)
{
	if(size == (int)sizeof(enum msg_ctrl_code)) {
		enum msg_ctrl_code c;
		memcpy(&c, buf, sizeof(c));
		if(c == MSG_CTRL_GVT_START) {
			fm_round_open = 1;
			fm_round_active = 1;
			fm_flip_pending = 1;
		}
		if(c == MSG_CTRL_TERMINATION && fm_late_burst) {
			/* this rank is about to leave its worker loops: a last burst of legal cancellations, so that anti-messages (often
			 * of another colour than their events) are in flight during shutdown and reach the drain code */
			unsigned left = fm_late_burst;
			for(unsigned i = fm_sent_n; i-- > 0 && left;)
				if(!fm_sent[i].cancelled && fm_sent[i].cause < 0 && fm_sent[i].send_tq >= fm_commit &&
				    fm_sent[i].send_tq >= fm_last_gvt) {
					fm_send_anti(i);
					left--;
				}
		}
		return;
	}
	const struct lp_msg *m = (const struct lp_msg *)((const char *)buf - msg_preamble_size());
	uint64_t tq = fm_dbl_tq(m->dest_t);
	if(tq < fm_last_gvt)
		fm_peer_below_gvt++;
	if(tq < fm_floor)
		fm_floor = tq; /* the peer rolls back */
	if(size == (int)msg_remote_anti_size()) {
		fm_n_recv_anti++;
		for(unsigned i = 0; i < fm_recv_n; ++i)
			if(fm_recv[i].raw_id == (m->raw_flags & ~3U) && fm_recv[i].m_seq == m->m_seq && !fm_recv[i].cancelled) {
				fm_recv[i].cancelled = 1;
				for(unsigned j = 0; j < fm_sent_n; ++j)
					if(fm_sent[j].cause == (int)i && !fm_sent[j].cancelled)
						fm_send_anti(j);
				break;
			}
		return;
	}
	fm_n_recv_ev++;
	/* S oracle (C06 id uniqueness): two events of this rank that are both alive must not carry the same (id word, m_seq) -
	 * the peer, like a real receiver, can only tell them apart by that pair when an anti-message arrives */
	for(unsigned i = 0; i < fm_recv_n; ++i)
		if(!fm_recv[i].cancelled && fm_recv[i].raw_id == (m->raw_flags & ~3U) && fm_recv[i].m_seq == m->m_seq && fm_recv[i].tq >= fm_last_gvt) {
			fm_dup_ids++;
			break;
		}
	if(fm_recv_n < FM_SENT) {
		fm_recv[fm_recv_n].raw_id = m->raw_flags & ~3U;
		fm_recv[fm_recv_n].m_seq = m->m_seq;
		fm_recv[fm_recv_n].tq = tq;
		fm_recv[fm_recv_n].cancelled = 0;
		if(vrng_below(100) < fm_reflect_pct) {
			unsigned n = 1 + (unsigned)vrng_below(2);
			for(unsigned j = 0; j < n; ++j) {
				static const unsigned dq[6] = {0, 1, 2, 4, 8, 14};
				unsigned type = (unsigned)vrng_below(fm_ntypes > 1 ? fm_ntypes - 1 : 1);
				/* a zero-delay response must not precede its cause in the event order: strictly lower type
				 * is what GenModel does; the peer is not bound by GenModel, any type is legal for the receiver */
				if(fm_send_event(fm_first_lp + vrng_below(fm_n_local), tq + dq[vrng_below(6)], tq, type,
				       GM_SIZES[vrng_below(8)], (unsigned)vrng_below(4), (int)fm_recv_n) >= 0)
					fm_n_resp++;
			}
		}
		fm_recv_n++;
	}
}

/* ------------------------------------------------------------------ the MPI functions used by mpi.c */
int MPI_Init_thread(int *argc, char ***argv, int required, int *provided)
{
	(void)argc, (void)argv;
	*provided = required;
	fm_sent = calloc(FM_SENT, sizeof(*fm_sent));
	fm_recv = calloc(FM_SENT, sizeof(*fm_recv));
	return 0;
}
int MPI_Finalize(void) { return 0; }
int MPI_Comm_create_errhandler(MPI_Comm_errhandler_function *fn, MPI_Errhandler *eh) { (void)fn; *eh = 1; return 0; }
int MPI_Comm_set_errhandler(MPI_Comm c, MPI_Errhandler eh) { (void)c, (void)eh; return 0; }
int MPI_Comm_get_errhandler(MPI_Comm c, MPI_Errhandler *eh) { (void)c; *eh = 1; return 0; }
int MPI_Errhandler_free(MPI_Errhandler *eh) { *eh = 0; return 0; }
int MPI_Error_string(int code, char *str, int *len) { (void)code; str[0] = 0; *len = 0; return 0; }
int MPI_Comm_rank(MPI_Comm c, int *rank) { (void)c; *rank = 0; return 0; }
int MPI_Comm_size(MPI_Comm c, int *size) { (void)c; *size = 2; return 0; }
int MPI_Request_free(MPI_Request *req) { *req = MPI_REQUEST_NULL; return 0; }
int MPI_Barrier(MPI_Comm c) { (void)c; return 0; }

int MPI_Isend(const void *buf, int count, MPI_Datatype dt, int dest, int tag, MPI_Comm c, MPI_Request *req)
{
	(void)dt, (void)tag, (void)c;
	*req = 3;
	if(dest == 0)
		fm_post(buf, count); /* to this rank itself (control broadcasts) */
	else if(count == (int)sizeof(enum msg_ctrl_code))
		fm_peer_receive(buf, count);
	else {
		const struct lp_msg *m = (const struct lp_msg *)((const char *)buf - msg_preamble_size());
		int colour = count == (int)msg_remote_anti_size() ? (int)((m->raw_flags >> 1) & 1U) : (int)(m->raw_flags & 1U);
		fm_from_us_colour[colour]++;
		if(fm_outbox_n >= FM_INBOX) {
			fprintf(stderr, "fakempi: outbox overflow\n");
			abort();
		}
		/* the buffer must be large enough for the field accesses of fm_peer_receive (it reads through a struct lp_msg) */
		size_t cap = (size_t)count + sizeof(struct lp_msg);
		unsigned char *b = calloc(1, cap + msg_preamble_size());
		memcpy(b + msg_preamble_size(), buf, (size_t)count);
		fm_outbox[fm_outbox_n].size = count;
		fm_outbox[fm_outbox_n].bytes = b; /* NOTE: data starts at b + preamble; see fm_outbox_deliver */
		fm_outbox[fm_outbox_n].colour = colour;
		fm_outbox[fm_outbox_n].age = 0;
		fm_outbox_n++;
		fm_n_delayed++;
	}
	return 0;
}
int MPI_Send(const void *buf, int count, MPI_Datatype dt, int dest, int tag, MPI_Comm c)
{
	(void)buf, (void)count, (void)dt, (void)dest, (void)tag, (void)c;
	fprintf(stderr, "fakempi: MPI_Send not supported\n");
	abort();
}
int MPI_Mprobe(int source, int tag, MPI_Comm c, MPI_Message *msg, MPI_Status *st)
{
	(void)source, (void)tag, (void)c, (void)msg, (void)st;
	fprintf(stderr, "fakempi: MPI_Mprobe not supported\n");
	abort();
}

int MPI_Improbe(int source, int tag, MPI_Comm c, int *flag, MPI_Message *msg, MPI_Status *st)
{
	(void)source, (void)tag, (void)c;
	fm_outbox_progress(-1);
	fm_peer_act();
	*flag = 0;
	if(!fm_inbox_n)
		return 0;
	int pick = -1;
	for(unsigned i = 0; i < fm_inbox_n; ++i)
		if(++fm_inbox[i].age > fm_max_age && pick < 0)
			pick = (int)i;
	if(pick >= 0)
		fm_n_forced++;
	else if(vrng_below(3))
		pick = vrng_below(2) ? (int)vrng_below(fm_inbox_n) : (int)(fm_inbox_n - 1 - vrng_below(fm_inbox_n < 4 ? fm_inbox_n : 4));
	if(pick < 0)
		return 0;
	/* move the chosen item to the reserved slot at the end: MPI_Message is its index */
	struct fm_item it = fm_inbox[pick];
	fm_inbox[pick] = fm_inbox[fm_inbox_n - 1];
	fm_inbox[fm_inbox_n - 1] = it;
	*msg = (int)(fm_inbox_n - 1);
	st->count = it.size;
	*flag = 1;
	return 0;
}
int MPI_Get_count(const MPI_Status *st, MPI_Datatype dt, int *count)
{
	(void)dt;
	*count = st->count;
	return 0;
}
int MPI_Mrecv(void *buf, int count, MPI_Datatype dt, MPI_Message *msg, MPI_Status *st)
{
	(void)dt, (void)st;
	if(*msg != (int)fm_inbox_n - 1) {
		fprintf(stderr, "fakempi: Mrecv out of order\n");
		abort();
	}
	struct fm_item *it = &fm_inbox[--fm_inbox_n];
	memcpy(buf, it->bytes, (size_t)(count < it->size ? count : it->size));
	free(it->bytes);
	return 0;
}

int MPI_Ireduce_scatter_block(const void *sendbuf, void *recvbuf, int recvcount, MPI_Datatype dt, MPI_Op op, MPI_Comm c,
    MPI_Request *req)
{
	(void)recvcount, (void)dt, (void)op, (void)c;
	fm_sc_ours = ((const uint32_t *)sendbuf)[0];
	fm_sc_theirs = ((const uint32_t *)sendbuf)[1];
	fm_sc_res = recvbuf;
	fm_sc_wait = (int)vrng_below(fm_lag + 1);
	*req = 1;
	return 0;
}
int MPI_Iallreduce(const void *sendbuf, void *recvbuf, int count, MPI_Datatype dt, MPI_Op op, MPI_Comm c, MPI_Request *req)
{
	(void)count, (void)dt, (void)op, (void)c;
	fm_mn_ours = *(const double *)sendbuf;
	fm_mn_res = recvbuf;
	fm_mn_wait = (int)vrng_below(fm_lag + 1);
	*req = 2;
	return 0;
}
int MPI_Test(MPI_Request *req, int *flag, MPI_Status *st)
{
	(void)st;
	*flag = 1;
	if(*req == 1) {
		if(fm_sc_wait > 0) {
			fm_sc_wait--;
			*flag = 0;
			return 0;
		}
		/* the peer enters the sum-scatter: it has flipped its colour by now */
		if(fm_flip_pending || !fm_round_active)
			fm_flip();
		fm_round_active = 0;
		int old = !fm_phase;
		*fm_sc_res = fm_sc_ours + fm_sent_colour[old];
		fm_sent_colour[old] = 0;
		/* what this rank reports as sent to the peer in the old colour must be what it really sent */
		if(fm_sc_theirs != fm_from_us_colour[old])
			fm_sent_count_wrong++;
		fm_from_us_colour[old] = 0;
		/* the peer receives all old-colour messages before it starts its second reduction */
		fm_outbox_progress(old);
		fm_sc_wait = -1;
		*req = MPI_REQUEST_NULL;
	} else if(*req == 2) {
		if(fm_mn_wait > 0) {
			fm_mn_wait--;
			*flag = 0;
			return 0;
		}
		/* the peer enters the min all-reduce: choose its contribution (E3): at most its own virtual time and the
		 * time stamps of what it sent in the new colour; sometimes lower (never below the last GVT) */
		uint64_t ours = fm_dbl_tq(fm_mn_ours);
		uint64_t chosen = fm_floor < fm_newmin ? fm_floor : fm_newmin;
		if(fm_stopped && fm_newmin >= FM_TQ_INF && !vrng_below(2)) {
			chosen = FM_TQ_INF; /* idle peer: gives up the right to cancel anything */
			fm_commit = FM_TQ_INF;
		}
		else if(!vrng_below(3)) {
			uint64_t d = vrng_below(6);
			chosen = chosen >= fm_last_gvt + d ? chosen - d : fm_last_gvt;
		}
		if(chosen < FM_TQ_INF && chosen > fm_commit)
			fm_commit = chosen;
		if(ours < FM_TQ_INF)
			fm_last_ours = ours;
		double r = fm_tq_dbl(chosen);
		*fm_mn_res = fm_mn_ours < r ? fm_mn_ours : r;
		if(fm_dbl_tq(*fm_mn_res) < FM_TQ_INF)
			fm_last_gvt = fm_dbl_tq(*fm_mn_res);
		if(fm_floor < fm_last_gvt)
			fm_floor = fm_last_gvt; /* only an idle peer can be below: whatever it sends later is at or above the GVT */
		fm_mn_wait = -1;
		fm_round_open = 0;
		fm_n_rounds++;
		*req = MPI_REQUEST_NULL;
		fm_post_ctrl(MSG_CTRL_GVT_DONE);
		if(fm_stopped && !fm_term_sent) {
			fm_term_sent = 1;
			fm_post_ctrl(MSG_CTRL_TERMINATION);
		}
	}
	return 0;
}
