/* C19 harness: the REAL topology library (src/lib/topology/topology.c + lib/random) driven through its
 * PUBLIC API (InitializeTopology, GetReceiver, CountDirections, IsNeighbor, AddTopologyLink,
 * ReleaseTopology, Random, RandomRange).
 * usage: hc19 <seed> <n_random> <max_dim> <max_regions> <n_thread_iters> <ops_out> <c_out> <oracle_out>
 *  ops_out    : one protocol line per operation (fed to the Lean driver, mode `topo`)
 *  c_out      : the C results for the same lines
 *  oracle_out : S oracle - the relations of property C19 evaluated directly on the C API,
 *               one line per failure: "<KIND> class=<class> geom=<g> ..."
 * stdout: one JSON line of statistics.
 *
 * Random inputs of the model: before every DIRECTION_RANDOM query the generator state of the calling
 * LP is snapshotted, the values the library is going to draw are pre-computed with the public
 * Random()/RandomRange() and the state is restored; the pre-computed values go on the op line.
 */
#include "vcommon.h"
#include "stubs_min.h"
#include <lp/lp.h>
#include <lib/random/random.h>
#include <ROOT-Sim.h>
#include <fcntl.h>
#include <pthread.h>
#include <unistd.h>

__thread struct lp_ctx *current_lp;

static struct lp_ctx lp_a, lp_b;
static struct rng_ctx rng_a, rng_b;
#define RNG (*current_lp->rng_ctx)

static FILE *f_ops, *f_c, *f_or;
static unsigned long n_crafted_random;
static unsigned long n_lines, n_recv_fixed, n_recv_random, n_count, n_isnb, n_link, n_init, n_topologies,
    n_sources, n_oracle_checks, n_purity_checks, n_viol, n_thread_checks;
static unsigned long per_geom_random[9], per_geom_sources[9];
static unsigned long rin_hist[8]; /* length of the random-input list */

static const char *GN[9] = {"?", "hexagon", "square", "torus", "ring", "bidring", "star", "fcmesh", "graph"};

/* current topology + shadow copy of what the harness asked for */
static struct topology *T;
static int G;
static unsigned H, W;
static lp_id_t R;
#define SH_MAX 64
static struct {
	unsigned n;
	lp_id_t to[SH_MAX];
	double p[SH_MAX];
} sh[SH_MAX];

static void seed_rng(void)
{
	switch(vrng_below(3)) {
		case 0: /* the library's own seeding */
			global_config.prng_seed = vrng();
			random_lib_lp_init(vrng_below(1000), &RNG);
			break;
		case 1:
			global_config.prng_seed = vrng_below(4);
			random_lib_lp_init(vrng_below(4), &RNG);
			break;
		default: /* arbitrary state */
			for(int i = 0; i < 4; ++i)
				RNG.state[i] = vrng();
			RNG.state[0] |= 1;
	}
}

static void line_c(const char *s)
{
	fputs(s, f_c);
	fputc('\n', f_c);
	n_lines++;
}

static void line_u(unsigned long long v)
{
	fprintf(f_c, "%llu\n", v);
	n_lines++;
}

static void op_release(void)
{
	if(T)
		ReleaseTopology(T);
	T = NULL;
}

/* InitializeTopology with one or two arguments (for any geometry: wrong counts must give NULL) */
static bool op_init(int g, int nargs, unsigned a, unsigned b)
{
	op_release();
	if(nargs == 2) {
		T = InitializeTopology(g, a, b);
		fprintf(f_ops, "init %d %u %u\n", g, a, b);
	} else {
		T = InitializeTopology(g, a);
		fprintf(f_ops, "init %d %u\n", g, a);
	}
	n_init++;
	G = g;
	H = W = 0;
	R = 0;
	memset(sh, 0, sizeof(sh));
	if(!T) {
		line_c("null");
		return false;
	}
	R = CountRegions(T);
	if(nargs == 2) {
		H = a;
		W = b;
	}
	line_u(R);
	n_topologies++;
	return true;
}

/* pre-compute what the library will draw for GetReceiver(src, T, DIRECTION_RANDOM) */
static unsigned precompute(lp_id_t src, char *out)
{
	unsigned k = 0;
	char *p = out;
	*p = 0;
	if(src >= R)
		return 0;
	switch(G) {
		case TOPOLOGY_HEXAGON:
			for(int i = 0; i < 5; ++i, ++k)
				p += sprintf(p, " %d", RandomRange(i, 5));
			break;
		case TOPOLOGY_SQUARE:
		case TOPOLOGY_TORUS:
			for(int i = 0; i < 3; ++i, ++k)
				p += sprintf(p, " %d", RandomRange(i, 3));
			break;
		case TOPOLOGY_BIDRING:
			p += sprintf(p, " %d", Random() < 0.5);
			k = 1;
			break;
		case TOPOLOGY_STAR:
			if(src == 0) {
				p += sprintf(p, " %llu", (unsigned long long)(lp_id_t)RandomRange(1, (int)(R - 1)));
				k = 1;
			}
			break;
		case TOPOLOGY_FCMESH:
			if(R > 1) {
				lp_id_t c;
				do {
					c = (lp_id_t)((double)R * Random());
					p += sprintf(p, " %llu", (unsigned long long)c);
					k++;
				} while(c == src && k < 60);
			}
			break;
		case TOPOLOGY_GRAPH:
			if(src < SH_MAX && sh[src].n) {
				double rand = Random(), cum = 0.0;
				for(unsigned i = 0; i < sh[src].n; ++i, ++k) {
					cum += sh[src].p[i];
					p += sprintf(p, " %d", rand < cum);
				}
			}
			break;
		default:
			break;
	}
	rin_hist[k < 7 ? k : 7]++;
	return k;
}

/* boundary generator states: the next raw output is 0 (Random() == 0.0), the smallest / largest values, or a dyadic fraction
 * k/4, k/8 (products with the number of candidates are exact integers); xoshiro's output function rotl(s1 * 5, 7) * 9 is
 * inverted on state[1]. Called by the callers of op_recv BEFORE they snapshot the generator. */
static void maybe_craft(void)
{
	if(vrng_below(4))
		return;
	static const uint64_t B[] = {0, 0, 2, 3, ~0ull, ~0ull - 1, 1ull << 63, 1ull << 62, 3ull << 62, 1ull << 61, 5ull << 61,
	    (1ull << 63) - 1, (1ull << 63) + 1, 1ull << 11, 1};
	uint64_t u = B[vrng_below(sizeof(B) / sizeof(*B))];
	uint64_t x = 0x8E38E38E38E38E39ull * u;
	RNG.state[1] = 0xCCCCCCCCCCCCCCCDull * ((x >> 7) | (x << 57));
	n_crafted_random++;
}

static lp_id_t op_recv(lp_id_t src, int d)
{
	char rin[1024];
	rin[0] = 0;
	if(d == DIRECTION_RANDOM) {
		struct rng_ctx snap = RNG;
		precompute(src, rin);
		RNG = snap;
		n_recv_random++;
		per_geom_random[G]++;
	} else
		n_recv_fixed++;
	lp_id_t r = GetReceiver(src, T, d);
	fprintf(f_ops, "recv %llu %d%s\n", (unsigned long long)src, d, rin);
	if(r == INVALID_DIRECTION)
		line_c("inv");
	else
		line_u(r);
	return r;
}

static lp_id_t op_count(lp_id_t src)
{
	lp_id_t c = CountDirections(src, T);
	fprintf(f_ops, "count %llu\n", (unsigned long long)src);
	line_u(c);
	n_count++;
	return c;
}

static bool op_isnb(lp_id_t src, lp_id_t to)
{
	bool b = IsNeighbor(src, to, T);
	fprintf(f_ops, "isnb %llu %llu\n", (unsigned long long)src, (unsigned long long)to);
	line_u(b);
	n_isnb++;
	return b;
}

static bool op_link(lp_id_t src, lp_id_t to, double p)
{
	bool ok = AddTopologyLink(T, src, to, p);
	fprintf(f_ops, "link %llu %llu %d\n", (unsigned long long)src, (unsigned long long)to, p >= 0 && p <= 1);
	line_u(ok);
	n_link++;
	if(G == TOPOLOGY_GRAPH && p >= 0 && p <= 1 && src < SH_MAX) {
		unsigned i;
		for(i = 0; i < sh[src].n; ++i)
			if(sh[src].to[i] == to)
				break;
		if(i == sh[src].n && i < SH_MAX) {
			sh[src].to[i] = to;
			sh[src].n++;
		}
		sh[src].p[i] = p;
	}
	return ok;
}

/* ---------------------------------------------------------------------------------------------
 * S oracle
 * ------------------------------------------------------------------------------------------- */
static const char *count_class(lp_id_t src)
{
	if(G == TOPOLOGY_SQUARE && (W == 1 || H == 1))
		return "degenerate";
	if(G == TOPOLOGY_HEXAGON) {
		lp_id_t y = src / W, x = src % W;
		if(H == 1)
			return "height1";
		if(H % 2 == 0 && W >= 2 && y == H - 1 && (x == 0 || x == W - 1))
			return "even_height_last_row_edge";
	}
	return "other";
}

/* width * height wrapped around `unsigned`: outside the domain of the property (K-diff only) */
static bool outside_domain(void)
{
	return G <= TOPOLOGY_TORUS && (uint64_t)W * H != R;
}

static void viol(const char *kind, const char *cls, lp_id_t src, int d, unsigned long long got,
    unsigned long long want)
{
	if(outside_domain())
		return;
	n_viol++;
	fprintf(f_or, "%s class=%s geom=%s h=%u w=%u regions=%llu from=%llu dir=%d got=%llu want=%llu\n", kind, cls,
	    GN[G], H, W, (unsigned long long)R, (unsigned long long)src, d, got, want);
}

static const int D_HEX[] = {DIRECTION_E, DIRECTION_W, DIRECTION_NE, DIRECTION_NW, DIRECTION_SE, DIRECTION_SW};
static const int D_SQ[] = {DIRECTION_E, DIRECTION_W, DIRECTION_N, DIRECTION_S};

/* every query on one source region, with the oracle relations; all calls are also K-diffed */
static void query_source(lp_id_t src, bool all_targets)
{
	enum { ND = 11 };
	static const int dirs[ND] = {0, 1, 2, 3, 4, 5, 6, 7, 8, 9, 1000};
	lp_id_t res[ND];
	n_sources++;
	per_geom_sources[G]++;
	seed_rng();
	for(int i = 0; i < ND; ++i) {
		if(dirs[i] == DIRECTION_RANDOM)
			maybe_craft();
		res[i] = op_recv(src, dirs[i]);
	}
	if(G == TOPOLOGY_GRAPH && src >= R)
		return; /* adjacency[from] out of bounds: outside the API contract */
	lp_id_t cnt = op_count(src);
	if(src >= R) {
		/* GetReceiver must refuse; IsNeighbor is defined by the code for the other geometries */
		for(int i = 0; i < ND; ++i)
			if(res[i] != INVALID_DIRECTION)
				viol("RECV_RANGE", "from_outside", src, dirs[i], res[i], INVALID_DIRECTION);
		op_isnb(src, 0);
		op_isnb(src, R ? R - 1 : 0);
		return;
	}
	/* (1) every receiver is inside the topology and IsNeighbor confirms it */
	for(int i = 0; i < ND; ++i) {
		n_oracle_checks++;
		if(res[i] == INVALID_DIRECTION)
			continue;
		if(res[i] >= R)
			viol("RECV_RANGE",
			    (G == TOPOLOGY_STAR && R == 1 && dirs[i] == DIRECTION_RANDOM) ? "star_single_region" : "other",
			    src, dirs[i], res[i], R);
		else if(!IsNeighbor(src, res[i], T))
			viol("RECV_NOT_NEIGHBOR", "other", src, dirs[i], res[i], 0);
	}
	/* (3) CountDirections */
	lp_id_t want = 0;
	switch(G) {
		case TOPOLOGY_HEXAGON:
			for(int i = 0; i < 6; ++i)
				want += res[D_HEX[i]] != INVALID_DIRECTION;
			break;
		case TOPOLOGY_SQUARE:
		case TOPOLOGY_TORUS:
			for(int i = 0; i < 4; ++i)
				want += res[D_SQ[i]] != INVALID_DIRECTION;
			break;
		case TOPOLOGY_RING:
			want = res[DIRECTION_E] != INVALID_DIRECTION;
			break;
		case TOPOLOGY_BIDRING:
			want = (res[DIRECTION_E] != INVALID_DIRECTION) + (res[DIRECTION_W] != INVALID_DIRECTION);
			break;
		case TOPOLOGY_STAR:
			want = src == 0 ? R - 1 : 1;
			break;
		case TOPOLOGY_FCMESH:
			want = R - 1;
			break;
		case TOPOLOGY_GRAPH:
			want = src < SH_MAX ? sh[src].n : 0;
			break;
	}
	n_oracle_checks++;
	if(cnt != want)
		viol("COUNT_MISMATCH", count_class(src), src, -1, cnt, want);
	/* (2) DIRECTION_RANDOM finds a neighbour whenever one exists */
	n_oracle_checks++;
	if(want > 0 && res[8] == INVALID_DIRECTION)
		viol("RANDOM_NONE", "other", src, DIRECTION_RANDOM, res[8], want);
	if(want == 0 && res[8] != INVALID_DIRECTION && res[8] < R)
		viol("RANDOM_PHANTOM", "other", src, DIRECTION_RANDOM, res[8], want);
	/* IsNeighbor over targets (K-diff); the oracle part: every target IsNeighbor accepts in a grid/ring is
	 * the receiver of some fixed direction */
	if(all_targets) {
		for(lp_id_t to = 0; to < R; ++to)
			op_isnb(src, to);
		op_isnb(src, R);
		op_isnb(src, INVALID_DIRECTION);
	} else {
		op_isnb(src, vrng_below(R));
		op_isnb(src, src);
		op_isnb(src, R);
		for(int i = 0; i < ND; ++i)
			if(res[i] != INVALID_DIRECTION && !vrng_below(3))
				op_isnb(src, res[i]);
	}
}

/* (4) purity: the same generator state of the caller gives the same receiver (and the same state
 * afterwards), whatever other LPs asked in between */
static void purity_probe(lp_id_t src, unsigned interference)
{
	n_purity_checks++;
	current_lp = &lp_a;
	seed_rng();
	maybe_craft();
	struct rng_ctx s0 = RNG;
	lp_id_t r1 = op_recv(src, DIRECTION_RANDOM);
	struct rng_ctx post1 = RNG;
	current_lp = &lp_b; /* another LP, own generator */
	for(unsigned i = 0; i < interference; ++i) {
		seed_rng();
		maybe_craft();
		op_recv(vrng_below(R), DIRECTION_RANDOM);
	}
	current_lp = &lp_a;
	RNG = s0; /* rollback: re-execute from the same generator state */
	lp_id_t r2 = op_recv(src, DIRECTION_RANDOM);
	struct rng_ctx post2 = RNG;
	bool grid = G == TOPOLOGY_HEXAGON || G == TOPOLOGY_SQUARE || G == TOPOLOGY_TORUS;
	if(r1 != r2)
		viol("IMPURE", grid ? "grid_shuffle" : "other", src, DIRECTION_RANDOM, r2, r1);
	else if(memcmp(&post1, &post2, sizeof(post1)))
		viol("IMPURE_STATE", "other", src, DIRECTION_RANDOM, r2, r1);
}

/* ---------------------------------------------------------------------------------------------
 * concurrent use: each thread is an LP with its own generator; it re-executes the same query from
 * the same generator state while the other threads issue their own queries
 * ------------------------------------------------------------------------------------------- */
struct targ {
	struct topology *t;
	lp_id_t src;
	uint64_t seed;
	unsigned long iters, mismatches;
	lp_id_t first, other;
};

static void *thread_fn(void *p)
{
	struct targ *a = p;
	struct lp_ctx lp;
	struct rng_ctx rng, s0;
	memset(&lp, 0, sizeof(lp));
	lp.rng_ctx = &rng;
	current_lp = &lp;
	for(int i = 0; i < 4; ++i)
		s0.state[i] = a->seed * (2 * i + 1) + 0x9e3779b97f4a7c15ULL * (i + 1);
	rng = s0;
	a->first = GetReceiver(a->src, a->t, DIRECTION_RANDOM);
	for(unsigned long i = 0; i < a->iters; ++i) {
		rng = s0;
		lp_id_t r = GetReceiver(a->src, a->t, DIRECTION_RANDOM);
		if(r != a->first) {
			a->mismatches++;
			a->other = r;
		}
	}
	return NULL;
}

static void thread_phase(unsigned long iters)
{
	enum { NT = 3 };
	static const int geos[3] = {TOPOLOGY_SQUARE, TOPOLOGY_HEXAGON, TOPOLOGY_TORUS};
	for(int gi = 0; gi < 3 && iters; ++gi) {
		struct topology *t = InitializeTopology(geos[gi], 3U, 3U);
		pthread_t th[NT];
		struct targ a[NT];
		for(int i = 0; i < NT; ++i) {
			a[i] = (struct targ){.t = t, .src = 4, .seed = vrng(), .iters = iters};
			pthread_create(&th[i], NULL, thread_fn, &a[i]);
		}
		unsigned long mm = 0;
		lp_id_t f = 0, o = 0;
		for(int i = 0; i < NT; ++i) {
			pthread_join(th[i], NULL);
			if(a[i].mismatches) {
				mm += a[i].mismatches;
				f = a[i].first;
				o = a[i].other;
			}
		}
		n_thread_checks += NT * iters;
		if(mm) {
			G = geos[gi];
			H = W = 3;
			R = 9;
			viol("IMPURE_THREADS", "grid_shuffle", 4, DIRECTION_RANDOM, o, f);
		}
		ReleaseTopology(t);
	}
}

/* ---------------------------------------------------------------------------------------------
 * which of the three proposed fixes are in the tree? (decided by behaviour, tells the driver which
 * model variant to run; the oracle above does not depend on it)
 * ------------------------------------------------------------------------------------------- */
static int fix_count, fix_star, fix_shuf;

static void detect_variant(void)
{
	struct topology *t = InitializeTopology(TOPOLOGY_SQUARE, 1U, 1U);
	fix_count = CountDirections(0, t) == 0;
	ReleaseTopology(t);
	t = InitializeTopology(TOPOLOGY_STAR, 1U);
	seed_rng();
	fix_star = GetReceiver(0, t, DIRECTION_RANDOM) == INVALID_DIRECTION;
	ReleaseTopology(t);
}

int main(int argc, char **argv)
{
	if(argc < 9)
		return 2;
	vrng_state = strtoull(argv[1], NULL, 0);
	unsigned long n_random = strtoul(argv[2], NULL, 0);
	unsigned max_dim = strtoul(argv[3], NULL, 0);
	unsigned max_regions = strtoul(argv[4], NULL, 0);
	unsigned long thread_iters = strtoul(argv[5], NULL, 0);
	f_ops = xfopen(argv[6], "w");
	f_c = xfopen(argv[7], "w");
	f_or = xfopen(argv[8], "w");

	/* the library reports API misuse on stderr: silence it (sanitizer reports go to the files named
	 * by ASAN_OPTIONS/UBSAN_OPTIONS log_path, set by the check) */
	int devnull = open("/dev/null", O_WRONLY);
	if(devnull >= 0)
		dup2(devnull, 2);

	lp_a.rng_ctx = &rng_a;
	lp_b.rng_ctx = &rng_b;
	current_lp = &lp_b;
	seed_rng();
	current_lp = &lp_a;
	seed_rng();

	detect_variant();
	/* shuffle fix: probed with real, K-diffed queries, so the model's array state stays in step; the
	 * `variant` line has to come first, hence the ops of the probe are buffered */
	{
		char *b_ops, *b_c;
		size_t l_ops, l_c;
		FILE *s_ops = f_ops, *s_c = f_c;
		f_ops = open_memstream(&b_ops, &l_ops);
		f_c = open_memstream(&b_c, &l_c);
		unsigned long v0 = n_viol;
		FILE *s_or = f_or;
		f_or = fopen("/dev/null", "w");
		op_init(TOPOLOGY_SQUARE, 2, 3, 3);
		for(int i = 0; i < 48; ++i)
			purity_probe(4, 0);
		fix_shuf = n_viol == v0;
		n_viol = v0;
		fclose(f_or);
		f_or = s_or;
		fclose(f_ops);
		fclose(f_c);
		f_ops = s_ops;
		f_c = s_c;
		fprintf(f_ops, "variant %d %d %d\n", fix_count, fix_star, fix_shuf);
		line_c("ok");
		fwrite(b_ops, 1, l_ops, f_ops);
		fwrite(b_c, 1, l_c, f_c);
		free(b_ops);
		free(b_c);
	}

	/* (1) exhaustive: every geometry x every size x every source x every direction (+ out-of-range
	 * sources and direction codes), IsNeighbor against every target */
	for(int g = TOPOLOGY_HEXAGON; g <= TOPOLOGY_TORUS; ++g)
		for(unsigned h = 1; h <= max_dim; ++h)
			for(unsigned w = 1; w <= max_dim; ++w) {
				op_init(g, 2, h, w);
				for(lp_id_t src = 0; src < R; ++src)
					query_source(src, true);
				query_source(R, false);
				query_source(R + 1 + vrng_below(5), false);
				query_source(vrng() | (1ULL << 40), false);
				if(R > 1)
					purity_probe(vrng_below(R), 1 + vrng_below(3));
			}
	for(int g = TOPOLOGY_RING; g <= TOPOLOGY_FCMESH; ++g)
		for(unsigned r = 1; r <= max_regions; ++r) {
			op_init(g, 1, r, 0);
			for(lp_id_t src = 0; src < R; ++src)
				query_source(src, true);
			query_source(R, false);
			query_source(UINT64_MAX - vrng_below(3), false);
			purity_probe(vrng_below(R), 1 + vrng_below(3));
		}
	/* initialisation corner cases: zero regions, wrapping width*height, wrong argument counts, bad geometry */
	op_init(TOPOLOGY_SQUARE, 2, 0, 5);
	op_init(TOPOLOGY_HEXAGON, 2, 5, 0);
	op_init(TOPOLOGY_TORUS, 2, 65536, 65536);
	op_init(TOPOLOGY_RING, 1, 0, 0);
	op_init(TOPOLOGY_RING, 2, 3, 4);
	op_init(TOPOLOGY_SQUARE, 1, 3, 0);
	op_init(0, 1, 3, 0);
	op_init(9, 2, 3, 3);

	/* (2) random graphs through AddTopologyLink */
	unsigned n_graphs = 40 + n_random / 200;
	for(unsigned gi = 0; gi < n_graphs; ++gi) {
		unsigned r = 1 + (gi < 12 ? gi : vrng_below(vrng_below(4) ? 12 : SH_MAX));
		op_init(TOPOLOGY_GRAPH, 1, r, 0);
		unsigned n_ops = vrng_below(4 * r + 2);
		static const double PR[] = {0.0, 1.0, 0.5, 0.25, 0.1, 1.0 / 3, 0.7};
		for(unsigned k = 0; k < n_ops; ++k) {
			lp_id_t a = vrng_below(r), b = vrng_below(vrng_below(3) ? r : (r + 1) / 2);
			double p = PR[vrng_below(7)];
			if(!vrng_below(12))
				p = vrng_below(2) ? -0.25 : 1.5; /* rejected */
			op_link(a, b, p);
			if(!vrng_below(4))
				query_source(a, r <= 12);
		}
		for(lp_id_t src = 0; src < R; ++src)
			query_source(src, r <= 12);
		query_source(R, false);
		for(unsigned k = 0; k < 4; ++k)
			purity_probe(vrng_below(R), 1 + vrng_below(3));
	}
	/* AddTopologyLink on something that is not a graph */
	op_init(TOPOLOGY_RING, 1, 5, 0);
	op_link(0, 1, 0.5);
	query_source(0, true);

	/* (3) seeded random queries, also on sizes far beyond the exhaustive range */
	for(unsigned long i = 0; i < n_random; ++i) {
		int g = 1 + vrng_below(7);
		unsigned a, b = 0;
		bool grid = g <= TOPOLOGY_TORUS;
		unsigned kind = vrng_below(10);
		if(grid) {
			if(kind < 6) {
				a = 1 + vrng_below(8);
				b = 1 + vrng_below(8);
			} else if(kind < 8) {
				a = 1 + vrng_below(40);
				b = 1 + vrng_below(40);
			} else {
				static const unsigned BIG[][2] = {{1, 4294967295U}, {4294967295U, 1}, {65535, 65537},
				    {65537, 65535}, {2, 2147483647}, {2147483647, 2}, {3, 1431655765}, {65536, 65535},
				    {1, 2147483648U}, {2147483648U, 1}, {1000, 1000}, {46341, 46340}, {2, 3}, {4, 1073741823},
				    {65537, 65537}, {3, 1431655766}, {1431655766, 3}, {65536, 65537}};
				unsigned k = vrng_below(sizeof(BIG) / sizeof(BIG[0]));
				a = BIG[k][0];
				b = BIG[k][1];
			}
			op_init(g, 2, a, b);
		} else {
			a = kind < 6 ? 1 + vrng_below(8) : kind < 8 ? 1 + vrng_below(200) : (1U << (1 + vrng_below(30))) + vrng_below(3);
			if(g == TOPOLOGY_FCMESH && kind >= 8)
				a = 4294967295U - vrng_below(2);
			op_init(g, 1, a, 0);
		}
		if(!T)
			continue;
		unsigned reps = 1 + vrng_below(4);
		for(unsigned k = 0; k < reps; ++k) {
			lp_id_t src;
			switch(vrng_below(grid ? 8 : 4)) {
				case 0: src = 0; break;
				case 1: src = R - 1; break;
				case 2: src = vrng_below(R); break;
				case 3: src = vrng_below(R < 3 ? R : 3); break;
				case 4: src = W - 1; break;                                  /* end of first row */
				case 5: src = (lp_id_t)(H - 1) * W; break;                   /* start of last row */
				case 6: src = (lp_id_t)vrng_below(H) * W + (vrng_below(2) ? 0 : W - 1); break; /* an edge column */
				default: src = (lp_id_t)(vrng_below(2) ? 0 : H - 1) * W + vrng_below(W); break; /* first/last row */
			}
			query_source(src, R <= 10);
			if(!vrng_below(2))
				purity_probe(src, vrng_below(4));
		}
	}
	op_release();

	/* (4) several threads (S oracle only; last, because a data race on the shared arrays may leave them
	 * in a state no sequential model explains) */
	thread_phase(thread_iters);

	printf("{\"lines\":%lu,\"topologies\":%lu,\"init_calls\":%lu,\"sources\":%lu,\"recv_fixed\":%lu,\"recv_random\":%lu,\"recv_random_crafted_boundary_state\":%lu,"
	       "\"count\":%lu,\"isnb\":%lu,\"link\":%lu,\"oracle_checks\":%lu,\"purity_checks\":%lu,\"thread_checks\":%lu,"
	       "\"oracle_violations\":%lu,\"fix_count\":%d,\"fix_star\":%d,\"fix_shuffle\":%d,"
	       "\"random_by_geometry\":{",
	    n_lines, n_topologies, n_init, n_sources, n_recv_fixed, n_recv_random, n_crafted_random, n_count, n_isnb, n_link,
	    n_oracle_checks, n_purity_checks, n_thread_checks, n_viol, fix_count, fix_star, fix_shuf);
	for(int g = 1; g <= 8; ++g)
		printf("\"%s\":%lu%s", GN[g], per_geom_random[g], g < 8 ? "," : "},\"sources_by_geometry\":{");
	for(int g = 1; g <= 8; ++g)
		printf("\"%s\":%lu%s", GN[g], per_geom_sources[g], g < 8 ? "," : "},\"random_inputs_len_hist\":[");
	for(int i = 0; i < 8; ++i)
		printf("%lu%s", rin_hist[i], i < 7 ? "," : "]}\n");
	fclose(f_ops);
	fclose(f_c);
	fclose(f_or);
	return 0;
}
