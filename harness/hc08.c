/* C08 / C04 harness: the WHOLE core (no_mpi build) + a tiny simulation model, run under a deterministic
 * cooperative scheduler. Worker threads are real pthreads serialised by a token; `verif_yield()` hands the
 * token to the scheduler, which picks the next thread from ONE seeded PRNG; `verif_now()` is a virtual clock,
 * so "the GVT period has elapsed" is a schedule decision (period 0 included).
 *
 * usage: hc08 <seed> <scenario> <n_threads> <n_lps> <period_mode> <ops_out> <c_out> <oracle_out> [events_per_lp]
 *   scenario   : pred  (termination by predicate)         stop (RootsimStop from an event handler)
 *                f10   (RootsimStop while time-stamp-0 events are still queued)
 *                f2    (finding F2 on a full run: predicate first true at an event with time stamp 0)
 *   period_mode: 0 = GVT period 0 (elapsed at every call), k>0 = elapsed with probability 1/k per call
 *   ops_out    : abstract actions of the Lean model `Model/Shutdown.lean` (driver mode `shutdown`), derived
 *                from the scheduling points the real threads pass through
 *   c_out      : what the real code shows after each action: control point, thread_phase, c_a, c_b,
 *                gvt_nodes, nodes_to_end, GVT delivered or not
 *   oracle_out : S oracles evaluated on the implementation, one line per failure:
 *                C08: HANG (step budget exhausted; round-robin schedule after the trigger), LP_FINI count
 *                C04: GVT monotone per thread / equal across threads per round / no extraction, send or
 *                     anti-message below a GVT value already told to a thread
 *
 * gvt.c is #included (not linked) so that its static counters can be observed; everything else is linked.
 */
#define _GNU_SOURCE
#include "vcommon.h"
#include <pthread.h>
#include <unistd.h>
#include <ROOT-Sim.h>
#include <gvt/gvt.c> /* real code; gives thread_phase, c_a, c_b, gvt_nodes, gvt_timer */
#include <lp/lp.h>

/* ------------------------------------------------------------------------------------------------ config */
enum { SC_PRED, SC_STOP, SC_F10, SC_F2 };
static int scenario, NT, NLP, period_mode;
static unsigned P_US = 1000; /* gvt_period in (virtual) microseconds */
static FILE *f_ops, *f_c, *f_or;

/* ------------------------------------------------------------------------------------------------ scheduler */
#define MAXTH 8
static pthread_mutex_t mu = PTHREAD_MUTEX_INITIALIZER;
static pthread_cond_t cv = PTHREAD_COND_INITIALIZER;
static pthread_key_t exit_key;
static int turn = -1, registered, n_alive;
static bool alive[MAXTH];
static __thread int my_tid = -1;
static unsigned long n_switch, n_yield, budget = 3000000, post_budget = 150000, post_trigger_steps;
static uint_fast64_t vclock = 1000000000ULL;
static int rr_next;

uint_fast64_t verif_now(void) { return vclock; }

/* per-thread translation state */
enum { W_INIT, W_LOOP, W_FLUSH, W_BARS, W_FORCED0, W_FORCED1, W_POST };
enum { VP_EXIT_ = 100 };
static struct tstate {
	int where, mpoint, bar_idx, stage, last_point;
	bool saw_gvt, saw_vote, timer;
	int phase_before; double acc_before, qmin_before; unsigned long snap_sw; /* at the entry of the pending gvt_phase_run call */
	int phase_at_yield; /* thread_phase as read by the thread itself at its last yield */
} ts[MAXTH];

static bool triggered(void) { return atomic_load(&nodes_to_end) <= 0; }

static int pick(int me, bool internal)
{
	if(n_alive <= 0) return -1;
	if(triggered()) {
		/* fair phase: round robin over the live threads */
		post_trigger_steps++;
		for(int k = 0; k < MAXTH; ++k) {
			rr_next = (rr_next + 1) % MAXTH;
			if(alive[rr_next]) return rr_next;
		}
	}
	if(me >= 0 && alive[me]) {
		/* internal points (queue / flag accesses) rarely switch; model-level points switch half of the time */
		if(internal ? vrng_below(16) : vrng_below(2)) return me;
	}
	int k = (int)vrng_below(n_alive), i = -1;
	do {
		i++;
		while(!alive[i]) i++;
	} while(k--);
	return i;
}

static const char *PH[] = {"idle", "A", "B", "C", "D"};
static void hang(void);
static double shq_min(int th);
static void inflight_land(int tid);

/* ------------------------------------------------------------------------------------------------ emit */
static unsigned long n_ops, n_peek_checks;
static void emit(int tid, int timer, int vote, const char *pc, int got)
{
	fprintf(f_ops, "run %d %d %d\n", tid, timer, vote);
	fprintf(f_c, "%s %s %u %u %d %d %s\n", pc, PH[thread_phase], (unsigned)atomic_load(&c_a), (unsigned)atomic_load(&c_b),
	    (int)atomic_load(&gvt_nodes), (int)atomic_load(&nodes_to_end), got < 0 ? "-" : got ? "1" : "0");
	n_ops++;
}

static bool is_internal(unsigned p)
{
	return p == VP_QUEUE_INSERT_LOADED || p == VP_QUEUE_INSERT_CAS_FAIL || p == VP_QUEUE_SWAP || p == VP_FLAG_PROCESS ||
	       p == VP_FLAG_ANTI || p == VP_FLAG_UNPROCESS;
}
static bool is_spin(int p) { return p == VP_BARRIER_SPIN_DOWN || p == VP_BARRIER_SPIN_UP; }

static char pcbuf[16];
static const char *bw(int k) { snprintf(pcbuf, sizeof pcbuf, "bw%d", k); return pcbuf; }

/* the segment of thread `tid` from its previous model-level point P to the point Q it has now reached */
static void peek_viol(const char *kind, int tid, double got, double acc, double qmin);
static void segment_end(int tid, int Q)
{
	struct tstate *t = &ts[tid];
	int P = t->mpoint;
	if(P == VP_GVT_PHASE) {
		/* the two queue peeks of gvt_thread_phase_run, checked against the shadow queue */
		double want = t->acc_before < t->qmin_before ? t->acc_before : t->qmin_before;
		if(t->phase_before == thread_phase_A && thread_phase == thread_phase_B && gvt_accumulator != want)
			peek_viol("phaseA-accumulator", tid, gvt_accumulator, t->acc_before, t->qmin_before);
		if(t->phase_before == thread_phase_C && thread_phase == thread_phase_D && reducing_p[tid] != want)
			peek_viol("phaseC-slot", tid, reducing_p[tid], t->acc_before, t->qmin_before);
		n_peek_checks += t->phase_before != thread_phase && (thread_phase == thread_phase_B || thread_phase == thread_phase_D);
	}
	if(t->where == W_INIT) {
		if(Q == VP_WORKER_LOOP || Q == VP_WORKER_FINI) {
			emit(tid, 0, 0, Q == VP_WORKER_LOOP ? "body" : "flush", -1); /* loop-head test */
			t->where = W_LOOP;
		}
	} else if(P == VP_GVT_PHASE && t->where == W_LOOP) {
		emit(tid, t->timer, t->saw_vote, "head", t->saw_gvt);
		emit(tid, 0, 0, Q == VP_WORKER_LOOP ? "body" : "flush", -1);
	} else if(P == VP_WORKER_FINI) {
		t->where = W_FLUSH;
		if(Q == VP_BARRIER_ENTER) emit(tid, 0, 0, "ba0", -1); /* idle: leaves the flush loop at once */
	} else if((P == VP_GVT_PHASE && t->where == W_FLUSH) || P == VP_GVT_DRAIN_FLUSH) {
		if(P == VP_GVT_PHASE || Q != VP_BARRIER_ENTER) emit(tid, t->timer, 0, "flush", -1);
		if(Q == VP_BARRIER_ENTER) emit(tid, 0, 0, "ba0", -1);
	} else if(P == VP_BARRIER_ENTER && t->where >= W_FLUSH) {
		emit(tid, 0, 0, bw(t->bar_idx), -1);
	} else if(is_spin(P) && t->where >= W_FLUSH) {
		if(is_spin(Q)) {
			emit(tid, 0, 0, bw(t->bar_idx), -1);
		} else {
			int k = t->bar_idx++;
			if(k == 0) emit(tid, 0, 0, "ba1", -1);
			else if(k == 1) { emit(tid, 0, 0, "f0", -1); t->where = W_FORCED0; }
			else if(k == 2) { emit(tid, 0, 0, "lpfini", -1); emit(tid, 0, 0, "ba3", -1); }
			else emit(tid, 0, 0, "done", -1);
		}
	} else if(P == VP_GVT_PHASE && (t->where == W_FORCED0 || t->where == W_FORCED1)) {
		/* `where` is still the loop the call was made in; the stage markers tell whether it was left */
		int now = t->stage >= 6 ? 2 : t->stage == 5 ? 1 : 0, was = t->where == W_FORCED1;
		emit(tid, 1, 0, now == 2 ? "ba2" : now == 1 ? "f1" : "f0", now != was);
		t->where = now == 2 ? W_POST : now == 1 ? W_FORCED1 : W_FORCED0;
	}
	if(Q == VP_BARRIER_ENTER && t->where == W_FLUSH) t->where = W_BARS;
	t->mpoint = Q;
	t->saw_gvt = t->saw_vote = false;
}

static void segment_begin(int tid, int Q)
{
	struct tstate *t = &ts[tid];
	t->timer = false;
	if(Q == VP_GVT_PHASE) {
		t->phase_before = thread_phase;
		t->acc_before = gvt_accumulator;
		t->qmin_before = shq_min(tid);
		t->snap_sw = n_switch;
	}
	if(Q == VP_GVT_PHASE && tid == 0) {
		/* the schedule decides whether the period has elapsed; in the forced rounds it always has */
		bool elapse = period_mode == 0 || t->where == W_FORCED0 || t->where == W_FORCED1 || !vrng_below(period_mode);
		if(elapse) vclock += P_US + 1;
		t->timer = global_config.gvt_period < vclock - gvt_timer;
	}
}

static void thread_exit_hook(void *arg)
{
	int tid = (int)(intptr_t)arg - 1;
	pthread_mutex_lock(&mu);
	segment_end(tid, VP_EXIT_);
	alive[tid] = false;
	n_alive--;
	turn = pick(-1, false);
	pthread_cond_broadcast(&cv);
	pthread_mutex_unlock(&mu);
}

void verif_yield(unsigned point)
{
	pthread_mutex_lock(&mu);
	if(my_tid < 0) { /* first scheduling point of a worker thread */
		my_tid = (int)rid;
		alive[my_tid] = true;
		n_alive++;
		ts[my_tid].mpoint = (int)point;
		pthread_setspecific(exit_key, (void *)(intptr_t)(my_tid + 1));
		if(++registered == NT)
			turn = pick(-1, false);
		pthread_cond_broadcast(&cv);
		while(turn != my_tid) pthread_cond_wait(&cv, &mu);
		pthread_mutex_unlock(&mu);
		return;
	}
	struct tstate *t = &ts[my_tid];
	n_yield++;
	if(getenv("HC08_DEBUG")) fprintf(stderr, "Y sw=%lu tid=%d point=%u phase=%d where=%d mpoint=%d\n", n_switch, my_tid, point, thread_phase, t->where, t->mpoint);
	/* the call of gvt_phase_run inside the patched flush loop belongs to the same step as the loop test */
	if(point == VP_GVT_PHASE && t->mpoint == VP_GVT_DRAIN_FLUSH && t->where == W_FLUSH) {
		pthread_mutex_unlock(&mu);
		return;
	}
	if(point != VP_QUEUE_INSERT_LOADED && point != VP_QUEUE_INSERT_CAS_FAIL) inflight_land(my_tid);
	bool internal = is_internal(point) || t->where == W_INIT;
	if(!is_internal(point)) {
		t->phase_at_yield = thread_phase;
		segment_end(my_tid, (int)point);
	}
	t->last_point = (int)point;
	if(++n_switch > budget || post_trigger_steps > post_budget) hang();
	int next = pick(my_tid, internal);
	if(next != my_tid) {
		turn = next;
		pthread_cond_broadcast(&cv);
		while(turn != my_tid) pthread_cond_wait(&cv, &mu);
	}
	if(!is_internal(point)) segment_begin(my_tid, (int)point);
	if(point == VP_QUEUE_SWAP && (t->mpoint == VP_GVT_PHASE || t->mpoint == VP_GVT_DRAIN_FLUSH)) {
		/* msg_queue_time_peek inside a phase step: the queue is read now */
		t->acc_before = gvt_accumulator;
		t->qmin_before = shq_min(my_tid);
		t->snap_sw = n_switch;
	}
	pthread_mutex_unlock(&mu);
}

/* ------------------------------------------------------------------------------------------------ shadow queues
 * time stamps queued for each thread, reconstructed from the traces (sends, re-insertions by rollbacks,
 * extractions); an insertion becomes visible when msg_queue_insert has returned, i.e. at the inserting
 * thread's next trace or scheduling point outside msg_queue_insert */
static struct shq { double *v; size_t n, cap; } shq[MAXTH];
static struct { bool on; int dest; double t; } inflight[MAXTH];
static void shq_add(int th, double t)
{
	struct shq *q = &shq[th];
	if(q->n == q->cap) q->v = realloc(q->v, (q->cap = q->cap ? 2 * q->cap : 64) * sizeof(double));
	q->v[q->n++] = t;
}
static void shq_del(int th, double t)
{
	struct shq *q = &shq[th];
	for(size_t i = 0; i < q->n; ++i)
		if(q->v[i] == t) { q->v[i] = q->v[--q->n]; return; }
}
static double shq_min(int th)
{
	double m = SIMTIME_MAX;
	for(size_t i = 0; i < shq[th].n; ++i) m = shq[th].v[i] < m ? shq[th].v[i] : m;
	return m;
}
static void inflight_land(int tid)
{
	if(tid >= 0 && inflight[tid].on) { shq_add(inflight[tid].dest, inflight[tid].t); inflight[tid].on = false; }
}
static void inflight_start(int tid, struct lp_msg *m)
{
	inflight_land(tid);
	inflight[tid].on = true;
	inflight[tid].dest = (int)lid_to_rid(m->dest);
	inflight[tid].t = m->dest_t;
}

/* ------------------------------------------------------------------------------------------------ traces + C04 monitor */
#define MAXG 100000
static double gvals[MAXTH][64];
static unsigned long gcount[MAXTH], n_extract, n_send, n_anti, n_votes, n_viol;
static double g_told = 0.0;
static unsigned long fini_calls[4096];

static void viol(const char *kind, int tid, double a, double b)
{
	n_viol++;
	fprintf(f_or, "C04 kind=%s tid=%d a=%llx b=%llx\n", kind, tid, (unsigned long long)dbl_bits(a), (unsigned long long)dbl_bits(b));
}

static void peek_viol(const char *kind, int tid, double got, double acc, double qmin)
{
	n_viol++;
	fprintf(f_or, "C04 kind=%s tid=%d a=%llx b=%llx c=%llx\n", kind, tid, (unsigned long long)dbl_bits(got),
	    (unsigned long long)dbl_bits(acc), (unsigned long long)dbl_bits(qmin));
	if(getenv("HC08_DEBUG")) {
		fprintf(stderr, "peek_viol %s tid=%d got=%f acc=%f qmin=%f n_switch=%lu\n", kind, tid, got, acc, qmin, n_switch);
		fprintf(stderr, "  shadow[%d] now: n=%zu min=%f; snapshot taken at sw=%lu where=%d\n", tid, shq[tid].n, shq_min(tid), ts[tid].snap_sw, ts[tid].where);
		for(int i = 0; i < NT; ++i)
			fprintf(stderr, "  inflight[%d]: on=%d dest=%d t=%f last_point=%d\n", i, inflight[i].on, inflight[i].dest,
			    inflight[i].t, ts[i].last_point);
	}
}

void verif_trace(unsigned kind, uint64_t a, uint64_t b, uint64_t c)
{
	(void)c;
	int tid = my_tid;
	if(tid < 0) tid = (int)rid; /* traces before the first scheduling point (none in practice) */
	if(getenv("HC08_DEBUG") && (kind == VK_EXTRACT || kind == VK_SEND_LOCAL || kind == VK_ANTI_LOCAL || kind == VK_UNPROCESS)) {
		struct lp_msg *m = (struct lp_msg *)(uintptr_t)a;
		fprintf(stderr, "TR sw=%lu tid=%d kind=%u msg=%p t=%f dest=%lu destthr=%d f=%lu\n", n_switch, tid, kind, (void *)m, m->dest_t,
		    (unsigned long)m->dest, (int)lid_to_rid(m->dest), (unsigned long)b);
	}
	switch(kind) {
		case VK_GVT: {
			double g = bits_dbl(a);
			ts[tid].saw_gvt = true;
			unsigned long k = gcount[tid]++;
			if(k && g < gvals[tid][(k - 1) % 64]) viol("gvt-decreases", tid, gvals[tid][(k - 1) % 64], g);
			/* same value for all threads in a round: compare with any thread that already has its k-th value */
			for(int u = 0; u < NT; ++u)
				if(u != tid && gcount[u] > k && gcount[u] - k <= 64 && gvals[u][k % 64] != g)
					viol("gvt-differs-across-threads", tid, gvals[u][k % 64], g);
			gvals[tid][k % 64] = g;
			if(g > g_told) g_told = g;
			break;
		}
		case VK_TERM_VOTE:
			ts[tid].saw_vote = true;
			n_votes++;
			break;
		case VK_DRAIN_STAGE:
			ts[tid].stage = (int)a;
			break;
		case VK_EXTRACT: {
			double t = ((struct lp_msg *)(uintptr_t)a)->dest_t;
			n_extract++;
			inflight_land(tid);
			shq_del(tid, t);
			if(t < g_told) viol("extract-below-gvt", tid, g_told, t);
			if(gvt_accumulator > t) viol("accumulator-above-extracted", tid, gvt_accumulator, t);
			break;
		}
		case VK_SEND_LOCAL: {
			double t = ((struct lp_msg *)(uintptr_t)a)->dest_t;
			n_send++;
			inflight_start(tid, (struct lp_msg *)(uintptr_t)a);
			if(t < g_told) viol("send-below-gvt", tid, g_told, t);
			break;
		}
		case VK_ANTI_LOCAL: {
			double t = ((struct lp_msg *)(uintptr_t)a)->dest_t;
			n_anti++;
			if(b & MSG_FLAG_PROCESSED) inflight_start(tid, (struct lp_msg *)(uintptr_t)a); /* re-queued as anti-message */
			else inflight_land(tid);
			if(t < g_told) viol("anti-below-gvt", tid, g_told, t);
			break;
		}
		case VK_UNPROCESS:
			if(!(b & MSG_FLAG_ANTI)) inflight_start(tid, (struct lp_msg *)(uintptr_t)a); /* re-queued for re-execution */
			else inflight_land(tid);
			break;
		default:
			break;
	}
}

/* ------------------------------------------------------------------------------------------------ result */
static const char *SC[] = {"pred", "stop", "f10", "f2"};
static unsigned long lp_events[4096];
static bool stop_called;

static void summary(const char *result, const char *sig)
{
	printf("{\"scenario\":\"%s\",\"threads\":%d,\"lps\":%d,\"period_mode\":%d,\"result\":\"%s\",\"signature\":\"%s\","
	       "\"switches\":%lu,\"yields\":%lu,\"model_actions\":%lu,\"post_trigger_steps\":%lu,\"gvt_values\":%lu,"
	       "\"votes\":%lu,\"extractions\":%lu,\"sends\":%lu,\"antis\":%lu,\"c04_violations\":%lu,\"stop_called\":%d,"
	       "\"peek_checks\":%lu}\n",
	    SC[scenario], NT, NLP, period_mode, result, sig, n_switch, n_yield, n_ops, post_trigger_steps, gcount[0], n_votes,
	    n_extract, n_send, n_anti, n_viol, stop_called, n_peek_checks);
}

static void hang(void)
{
	/* classify: where is every thread stuck? */
	bool in_flush = false, in_bar = false, in_forced = false;
	char desc[256] = "";
	for(int i = 0; i < NT; ++i) {
		if(!alive[i]) continue;
		int st = ts[i].stage;
		in_flush |= st == 1;
		in_bar |= st == 2 || st == 3;
		in_forced |= st == 4 || st == 5;
		snprintf(desc + strlen(desc), sizeof desc - strlen(desc), "%st%d:stage=%d,phase=%s", *desc ? ";" : "", i, st,
		    PH[ts[i].phase_at_yield]);
	}
	const char *sig = in_flush && in_bar ? "flush-vs-barrier" : in_forced && !in_flush && !in_bar ? "forced-round-never-ends" :
	    "other";
	fprintf(f_or, "C08 kind=shutdown-hang signature=%s triggered=%d threads=%s\n", sig, triggered(), desc);
	summary("HANG", sig);
	fflush(NULL);
	_exit(0);
}

/* ------------------------------------------------------------------------------------------------ simulation model */
struct lp_state { uint64_t events; };
#define EV 1
static unsigned K_END = 40;

static void dispatch(lp_id_t me, simtime_t now, unsigned type, const void *content, unsigned size, void *s)
{
	(void)content; (void)size;
	struct lp_state *st = s;
	switch(type) {
		case LP_INIT: {
			st = rs_malloc(sizeof(*st));
			st->events = 0;
			SetState(st);
			double t0 = scenario == SC_F10 ? 0.0 : scenario == SC_F2 ? (me == 0 ? 0.0 : 0.5) : 0.25 + Random();
			ScheduleNewEvent(me, t0, EV, NULL, 0);
			break;
		}
		case LP_FINI:
			__atomic_fetch_add(&fini_calls[me], 1, __ATOMIC_RELAXED);
			lp_events[me] = st ? st->events : 0;
			break;
		case EV:
			st->events++;
			if(scenario == SC_F10) {
				RootsimStop(); /* first event of every LP, all at time stamp 0; nothing else is scheduled */
				stop_called = true;
				fprintf(f_ops, "stop %d\n", my_tid);
				fprintf(f_c, "%d\n", (int)atomic_load(&nodes_to_end));
				break;
			}
			if(scenario == SC_F2) {
				ScheduleNewEvent(me, me == 0 ? now + 1.0 : now + 0.5, EV, NULL, 0);
				break;
			}
			if(scenario == SC_STOP && me == 0 && st->events == K_END / 2) {
				RootsimStop();
				stop_called = true;
				fprintf(f_ops, "stop %d\n", my_tid);
				fprintf(f_c, "%d\n", (int)atomic_load(&nodes_to_end));
			}
			ScheduleNewEvent((lp_id_t)(Random() * NLP), now + 0.1 + 2 * Random(), EV, NULL, 0);
			break;
		default:
			break;
	}
}

static bool can_end(lp_id_t me, const void *snapshot)
{
	const struct lp_state *st = snapshot;
	if(scenario == SC_F2) return me == 0 ? st->events >= 1 : st->events >= 3000;
	if(scenario == SC_STOP || scenario == SC_F10) return false;
	return st->events >= K_END;
}

int main(int argc, char **argv)
{
	if(argc < 9) return 2;
	vrng_state = strtoull(argv[1], NULL, 0);
	for(scenario = 0; scenario < 4 && strcmp(argv[2], SC[scenario]); ++scenario) {}
	if(scenario == 4) return 2;
	NT = atoi(argv[3]);
	NLP = atoi(argv[4]);
	period_mode = atoi(argv[5]);
	f_ops = xfopen(argv[6], "w");
	f_c = xfopen(argv[7], "w");
	f_or = xfopen(argv[8], "w");
	if(argc > 9) K_END = (unsigned)atoi(argv[9]); /* events per LP before its predicate holds */
	pthread_key_create(&exit_key, thread_exit_hook);
	/* the driver learns the configuration: threads, which repairs the tree carries is decided by the check */
	fprintf(f_ops, "cfg %d %d\n", NT, scenario == SC_F10);
	fprintf(f_c, "ok\n");

	struct simulation_configuration conf = {.lps = (lp_id_t)NLP, .n_threads = (unsigned)NT, .termination_time = 0,
	    .gvt_period = P_US, .log_level = LOG_SILENT, .stats_file = NULL, .ckpt_interval = 0, .prng_seed = vrng(),
	    .core_binding = false, .serial = false, .dispatcher = dispatch, .committed = can_end};
	if(RootsimInit(&conf)) return 2;
	int rc = RootsimRun();

	/* S oracle C08: LP_FINI exactly once per LP */
	for(int i = 0; i < NLP; ++i)
		if(fini_calls[i] != 1)
			fprintf(f_or, "C08 kind=lp-fini-count lp=%d calls=%lu\n", i, fini_calls[i]);
	if(scenario == SC_F2 && lp_events[1] < 3000)
		fprintf(f_or, "C07 kind=premature-end cause=ts0 lp=1 events=%lu\n", lp_events[1]);
	summary(rc ? "ERROR" : "RETURNED", "-");
	fclose(f_ops); fclose(f_c); fclose(f_or);
	return 0;
}
