/* Full-run harness: the REAL ROOT-Sim core (all of src/, no_mpi build, hooks on) running a GenModel
 * instance, serially or in parallel under the deterministic scheduler, producing
 *   ops file : one protocol line per observed event (inputs of the Lean re-execution)
 *   c   file : the implementation's canonical answer for the same line
 * plus one JSON line of statistics on stdout.
 *
 * usage: hrun <mode:serial|par> <ops> <cout> key=value...
 *   keys: seed mseed lps types fan thr spread rng mem t0 threads ckpt period stay budget tterm tw
 *   t0: bit 0 = initial events at time stamp 0, bit 1 = V2-only GenModel mode (zero-delay forwards of identical content)
 *   tw: bit 0 = `twshadow` line (content-level abstract Time Warp machine), bit 1 = `twgshadow` line (instrumented machine, contract V2)
 */
#define VERIF_OWN_BATCH
#include "vsched.h"
#include "genmodel.h"
#include <lp/lp.h>
#include <lp/msg.h>
#include <lp/process.h>
#include <lib/random/random.h>
#include <gvt/fossil.h>
#ifdef VERIF_FAKE_PEER
#include "fakempi_impl.h" /* rank 1 is played by an adversarial peer inside a fake MPI library (rank mode only) */
#endif

static FILE *f_ops, *f_c, *f_g; /* f_g (rank mode): node-level GVT actions of this rank */
static int mode_par, mode_dist, mode_rank; /* rank: full trace vocabulary, one file pair per MPI rank */
static const char *ops_path, *c_path;
static char rank_model_line[512];
static unsigned usleep_max;
static unsigned long n_ev[40], n_lines;
static uint64_t vclock, vperiod = 1000;
static unsigned long n_rollbacks, n_silent, n_antis, n_fwd, n_gvt, n_stragglers, max_rb_depth, n_ckpt, n_fossil;
static unsigned drain_stage[VS_MAXT];
/* S oracle state (implementation side, independent of the Lean model) */
static uint64_t th_gvt[VS_MAXT];
static unsigned long s_below_gvt, s_rb_mismatch, s_double_free, s_rb_after_fossil, s_rb_checked, s_gvt_decrease,
    s_gvt_disagree;
static unsigned long n_alloc, n_free, n_fossil_attempts;
#define MAXLP 64
#define MAXH (1u << 20)
static uint64_t *dg[MAXLP];        /* dg[lp][absolute history length] = state digest when first reached */
static uint64_t hbase[MAXLP];      /* entries dropped by fossil collection so far */
static unsigned char *freed_ord;   /* ledger: ordinal already released */
static uint64_t gvt_round_val[1 << 16];
static unsigned gvt_round_cnt[VS_MAXT];
static void dg_set(uint64_t lp, uint64_t abs, uint64_t d)
{
	if(lp < MAXLP && abs < MAXH) {
		if(!dg[lp])
			dg[lp] = calloc(MAXH, sizeof(uint64_t));
		dg[lp][abs] = d;
	}
}

/* ------------------------------------------------------------------ pointer -> message ordinal */
#define PM_CAP (1u << 22)
static struct { uintptr_t p; uint64_t ord; } pm[PM_CAP];
static uint64_t next_ord;
static uint64_t pm_slot(uintptr_t p)
{
	uint64_t h = (p >> 4) * 0x9e3779b97f4a7c15ULL >> 42;
	while(pm[h].p && pm[h].p != p)
		h = (h + 1) & (PM_CAP - 1);
	return h;
}
static uint64_t ord_new(const void *p)
{
	uint64_t s = pm_slot((uintptr_t)p);
	pm[s].p = (uintptr_t)p;
	pm[s].ord = next_ord++;
	return pm[s].ord;
}
static uint64_t ord_of(const void *p)
{
	uint64_t s = pm_slot((uintptr_t)p);
	return pm[s].p ? pm[s].ord : UINT64_MAX;
}

static uint64_t lp_digest(uint64_t lp)
{
	return gm_digest(lps[lp].state_pointer, lps[lp].rng_ctx ? lps[lp].rng_ctx->state : NULL);
}
static uint64_t tq_of(double t) { return t >= 1e18 ? (1ULL << 62) : t < 0 ? ((1ULL << 62) + 1) : (uint64_t)(t * 4.0); } /* SIMTIME_MAX -> 2^62, negative sentinel -> 2^62+1 */

static void dist_open(void)
{
	char b[600];
	snprintf(b, sizeof b, "%s.%d", ops_path, (int)nid);
	f_ops = xfopen(b, "w");
	snprintf(b, sizeof b, "%s.%d", c_path, (int)nid);
	f_c = xfopen(b, "w");
	setvbuf(f_ops, NULL, _IOLBF, 0); /* a rank killed by the watchdog must leave complete lines */
	setvbuf(f_c, NULL, _IOLBF, 0);
	vrng_state ^= 0x9e3779b97f4a7c15ULL * (uint64_t)(nid + 1); /* a different schedule on every rank */
	if(mode_rank) {
		snprintf(b, sizeof b, "%s.g.%d", ops_path, (int)nid);
		f_g = xfopen(b, "w");
		setvbuf(f_g, NULL, _IOLBF, 0);
		fprintf(f_g, "hdr %d %u %d\n", (int)n_nodes, global_config.n_threads, (int)nid);
		fprintf(f_ops, "%s %d %d\n", rank_model_line, (int)n_nodes, (int)nid);
		fprintf(f_c, "model ok\n");
		n_lines++;
	}
}
#define OP(...) ((void)(f_ops || (dist_open(), 1)), fprintf(f_ops, __VA_ARGS__), fputc('\n', f_ops), n_lines++)
#define RE(...) (fprintf(f_c, __VA_ARGS__), fputc('\n', f_c))


/* S oracle for C07: a thread votes for termination (not because of the termination time) only if every LP it
 * hosts currently satisfies its predicate - on the unchanged code a non-zero termination_t means the predicate
 * held at the LP's last processed event and that event has not been undone since. */
static unsigned long s_vote_false_pred, s_vote_uncommitted, n_votes;
/* Ledger for the C07 oracle (independent of termination.c): for every LP of this rank, the time stamp and the predicate value
 * after every processed event that has not been undone, by history index; "pred held on a committed state" = the predicate was
 * true at LP_INIT, or on an entry already released by fossil collection, or on a not-undone entry with time stamp below g. */
#define LG_MAX 16384
static struct { uint64_t tq; unsigned char pred, used; } *lg[MAXLP];
static unsigned char lg_committed_true[MAXLP], lg_overflow[MAXLP]; /* overflow: an index beyond the ledger was seen, no verdict for that LP */
static void lg_forward(uint64_t lp_abs, uint64_t idx, double t)
{
	uint64_t l = lp_abs - lid_node_first;
	if(l < MAXLP && idx >= LG_MAX)
		lg_overflow[l] = 1;
	if(l >= MAXLP || idx >= LG_MAX)
		return;
	if(!lg[l])
		lg[l] = calloc(LG_MAX, sizeof(**lg));
	lg[l][idx].tq = tq_of(t);
	lg[l][idx].pred = gm_can_end(lp_abs, lps[lp_abs].state_pointer);
	lg[l][idx].used = 1;
}
static void lg_init(uint64_t lp_abs)
{
	uint64_t l = lp_abs - lid_node_first;
	if(l < MAXLP && gm_can_end(lp_abs, lps[lp_abs].state_pointer))
		lg_committed_true[l] = 1;
}
static void lg_rollback(uint64_t lp_abs, uint64_t past_i)
{
	uint64_t l = lp_abs - lid_node_first;
	if(l >= MAXLP || !lg[l])
		return;
	for(uint64_t i = past_i; i < LG_MAX; ++i)
		lg[l][i].used = 0;
}
static void lg_fossil(uint64_t lp_abs, uint64_t n)
{
	uint64_t l = lp_abs - lid_node_first;
	if(l >= MAXLP || !lg[l] || !n)
		return;
	for(uint64_t i = 0; i < n && i < LG_MAX; ++i)
		if(lg[l][i].used && lg[l][i].pred)
			lg_committed_true[l] = 1;
	if(n < LG_MAX)
		memmove(lg[l], lg[l] + n, (LG_MAX - n) * sizeof(**lg));
	memset(lg[l] + (n < LG_MAX ? LG_MAX - n : 0), 0, (n < LG_MAX ? n : LG_MAX) * sizeof(**lg));
}
static void vote_oracle(uint64_t gvt_bits)
{
	n_votes++;
	if(bits_dbl(gvt_bits) >= global_config.termination_time)
		return;
	uint64_t g = tq_of(bits_dbl(gvt_bits));
	for(uint64_t i = lid_thread_first; i < lid_thread_end; ++i) {
		if(!gm_can_end(i, lps[i].state_pointer))
			s_vote_false_pred++;
		uint64_t l = i - lid_node_first;
		if(l >= MAXLP || lg_committed_true[l] || lg_overflow[l])
			continue;
		int ok = 0, complete = 1;
		if(lg[l])
			for(uint64_t k = 0; k < LG_MAX && !ok; ++k)
				ok = lg[l][k].used && lg[l][k].pred && lg[l][k].tq < g;
		if(array_count(lps[i].p.p_msgs) >= LG_MAX)
			complete = 0; /* history longer than the ledger: no verdict */
		if(!ok && complete)
			s_vote_uncommitted++;
	}
}

/* ------------------------------------------------------------------ distributed mode
 * Several MPI ranks, each with its own scheduler; cross-rank timing is real. The trace is reduced to
 * what the sequential specification can judge: the committed stream of every LP (entries released by
 * fossil collection, in order; entries held at shutdown below the last GVT) and the final states. */
static struct { uint64_t lp, tq; unsigned type, size; uint64_t pl; } cbuf[1 << 16];
static unsigned cbuf_n;
static void emit_commit(uint64_t lp, const struct lp_msg *m)
{
	OP("commit %llu", (unsigned long long)lp);
	RE("commit lp=%llu tq=%llu type=%u size=%u pl=%llx", (unsigned long long)lp, (unsigned long long)tq_of(m->dest_t),
	    m->m_type, m->pl_size, (unsigned long long)gm_payload_digest(m->pl, m->pl_size));
}
static void dist_trace(unsigned kind, uint64_t a, uint64_t b, uint64_t c)
{
	unsigned r = rid;
	const struct lp_msg *m = (const struct lp_msg *)(uintptr_t)a;
	switch(kind) {
		case VK_MSG_ALLOC:
			n_alloc++;
			break;
		case VK_MSG_FREE:
			n_free++;
			break;
		case VK_DEQUEUE:
			if(r < VS_MAXT && tq_of(m->dest_t) < th_gvt[r])
				s_below_gvt++;
			break;
		case VK_FOSSIL_FREE:
			if(!(b & 3) && cbuf_n < (1 << 16)) { /* a committed processed message; the C loop walks backwards */
				const struct lp_msg *p = (const struct lp_msg *)(uintptr_t)b;
				cbuf[cbuf_n].lp = a;
				cbuf[cbuf_n].tq = tq_of(p->dest_t);
				cbuf[cbuf_n].type = p->m_type;
				cbuf[cbuf_n].size = p->pl_size;
				cbuf[cbuf_n].pl = gm_payload_digest(p->pl, p->pl_size);
				cbuf_n++;
			}
			break;
		case VK_FOSSIL_DONE:
			n_fossil++;
			while(cbuf_n) {
				cbuf_n--;
				OP("commit %llu", (unsigned long long)cbuf[cbuf_n].lp);
				RE("commit lp=%llu tq=%llu type=%u size=%u pl=%llx", (unsigned long long)cbuf[cbuf_n].lp,
				    (unsigned long long)cbuf[cbuf_n].tq, cbuf[cbuf_n].type, cbuf[cbuf_n].size,
				    (unsigned long long)cbuf[cbuf_n].pl);
			}
			if(a - lid_node_first < MAXLP)
				hbase[a - lid_node_first] += b;
			lg_fossil(a, b);
			break;
		case VK_FINI_ENTRY:
			if(!(b & 3)) {
				const struct lp_msg *p = (const struct lp_msg *)(uintptr_t)b;
				if(r < VS_MAXT && tq_of(p->dest_t) < th_gvt[r])
					emit_commit(a, p);
			}
			break;
		case VK_ROLLBACK:
			n_rollbacks++;
			lg_rollback(a, b);
			break;
		case VK_TERM_INIT:
			lg_init(a);
			break;
		case VK_ROLLBACK_DONE: {
			uint64_t l = a - lid_node_first;
			if(l < MAXLP && dg[l] && hbase[l] + b < MAXH) {
				s_rb_checked++;
				s_rb_after_fossil += hbase[l] != 0;
				if(dg[l][hbase[l] + b] != lp_digest(a))
					s_rb_mismatch++;
			}
			break;
		}
		case VK_FORWARD:
			n_fwd++;
			lg_forward(b, c, m->dest_t);
			if(b - lid_node_first < MAXLP)
				dg_set(b - lid_node_first, hbase[b - lid_node_first] + c + 1, lp_digest(b));
			break;
		case VK_CKPT:
			n_ckpt++;
			if(a - lid_node_first < MAXLP)
				dg_set(a - lid_node_first, hbase[a - lid_node_first] + b, lp_digest(a));
			break;
		case VK_SILENT: n_silent++; break;
		case VK_ANTI_LOCAL: n_antis++; break;
		case VK_ANTI_REMOTE: n_ev[39]++; n_antis++; break;
		case VK_GVT:
			n_gvt++;
			if(r < VS_MAXT) {
				uint64_t g = tq_of(bits_dbl(a));
				if(g < th_gvt[r])
					s_gvt_decrease++;
				th_gvt[r] = g;
			}
			OP("gvt %u %llu", r, (unsigned long long)tq_of(bits_dbl(a)));
			RE("gvt %u tq=%llu", r, (unsigned long long)tq_of(bits_dbl(a)));
			break;
		case VK_DRAIN_STAGE:
			if(r < VS_MAXT)
				drain_stage[r] = (unsigned)a;
			break;
		case VK_TERM_VOTE:
			vote_oracle(a);
			break;
		default:
			break;
	}
}

/* ------------------------------------------------------------------ hooks */
uint_fast64_t verif_now(void)
{
	if(!mode_par && !mode_dist) {
		vclock += vrng_below(3) ? 0 : 1 + vperiod; /* serial: the timer fires at seeded random events */
		OP("snow %llu", (unsigned long long)vclock);
		RE("now");
		return vclock;
	}
	uint64_t r = vrng_below(8);
	vclock += r < 4 ? 0 : r < 6 ? 1 : vperiod + 1;
	return vclock;
}

/* batch=0: the built-in 64 process_msg() calls per worker-loop iteration; batch=n: a seeded number in 1..n (GVT rounds, fossil
 * collections and MPI polls become n/64 times denser per processed event) */
static unsigned hr_batch;
unsigned verif_batch(unsigned dflt)
{
	return hr_batch ? 1 + (unsigned)vrng_below(hr_batch) : dflt;
}

/* S oracle for the accounting clause of C20 (exact counters), in every mode: stats_take() is wrapped at link time
 * (-Wl,--wrap=stats_take); the counts the runtime books per thread must equal the events that happened on that thread
 * according to the trace hooks: rollbacks = VK_ROLLBACK, undone events = VK_UNPROCESS, silent re-executions = VK_SILENT,
 * checkpoints = VK_CKPT, anti-messages = VK_ANTI_LOCAL + VK_ANTI_REMOTE, forward executions = VK_FORWARD (+ LP_INIT). */
#include <log/stats.h>
enum { AC_RB, AC_UNDONE, AC_SILENT, AC_CKPT, AC_ANTI, AC_N };
static unsigned long ac_booked[VS_MAXT][AC_N], ac_seen[VS_MAXT][AC_N];
extern void __real_stats_take(enum stats_thread_type this_stat, uint_fast64_t c);
void __wrap_stats_take(enum stats_thread_type this_stat, uint_fast64_t c)
{
	unsigned r = rid;
	if(r < VS_MAXT)
		switch(this_stat) {
			case STATS_ROLLBACK: ac_booked[r][AC_RB] += c; break;
			case STATS_MSG_ROLLBACK: ac_booked[r][AC_UNDONE] += c; break;
			case STATS_MSG_SILENT: ac_booked[r][AC_SILENT] += c; break;
			case STATS_CKPT: ac_booked[r][AC_CKPT] += c; break;
			case STATS_MSG_ANTI: ac_booked[r][AC_ANTI] += c; break;
			default: break;
		}
	__real_stats_take(this_stat, c);
}
static unsigned long ac_mismatch(void)
{
	unsigned long bad = 0;
	for(unsigned r = 0; r < VS_MAXT; ++r)
		for(int k = 0; k < AC_N; ++k)
			bad += ac_booked[r][k] != ac_seen[r][k];
	return bad;
}

/* classification of an exhausted step budget:
 *  - "hang":    no trace event at all for a long time (threads only spin): deadlock / livelock in runtime code;
 *  - "nonterm": the run keeps making progress although the termination condition of property C08 (every LP of this rank has its
 *               predicate true on a committed state, by the ledger above) has held for a long time: the protocol does not end it;
 *  - "budget":  still making progress, termination condition not (long) established: inconclusive, the budget was too small. */
static uint64_t last_event_step, term_ready_step;
static int term_ready;
static void term_ready_check(void)
{
	if(term_ready || global_config.termination_time < 1e18)
		return;
	uint64_t g = UINT64_MAX;
	for(unsigned r = 0; r < global_config.n_threads && r < VS_MAXT; ++r)
		if(th_gvt[r] < g)
			g = th_gvt[r];
	for(uint64_t l = 0; l < n_lps_node && l < MAXLP; ++l) {
		if(lg_committed_true[l])
			continue;
		if(lg_overflow[l] || !lg[l])
			return;
		int ok = 0;
		for(uint64_t k = 0; k < LG_MAX && !ok; ++k)
			ok = lg[l][k].used && lg[l][k].pred && lg[l][k].tq < g;
		if(!ok)
			return;
	}
	if(n_lps_node > MAXLP)
		return;
	term_ready = 1;
	term_ready_step = vs_steps;
}

void verif_trace(unsigned kind, uint64_t a, uint64_t b, uint64_t c)
{
	if(kind < 40)
		n_ev[kind]++;
	if(kind != VK_NODE_PHASE)
		last_event_step = vs_steps;
	if(rid < VS_MAXT)
		switch(kind) {
			case VK_ROLLBACK: ac_seen[rid][AC_RB]++; break;
			case VK_UNPROCESS: ac_seen[rid][AC_UNDONE]++; break;
			case VK_SILENT: ac_seen[rid][AC_SILENT]++; break;
			case VK_CKPT: ac_seen[rid][AC_CKPT]++; break;
			case VK_ANTI_LOCAL: case VK_ANTI_REMOTE: ac_seen[rid][AC_ANTI]++; break;
			default: break;
		}
	if(kind == VK_GVT)
		term_ready_check();
	if(!mode_par && !mode_dist)
		return;
	unsigned r = rid;
	const struct lp_msg *m = (const struct lp_msg *)(uintptr_t)a;
	if(mode_dist) {
		dist_trace(kind, a, b, c);
		return;
	}
	switch(kind) {
		case VK_MSG_ALLOC: {
			uint64_t o = ord_new(m);
			n_alloc++;
			OP("alloc %u %llu", r, (unsigned long long)o);
			RE("alloc %llu", (unsigned long long)o);
			break;
		}
		case VK_SEND_LOCAL:
			OP("send %u %llu %llu", r, (unsigned long long)ord_of(m), (unsigned long long)b);
			RE("send %llu from=%llu dest=%llu tq=%llu type=%u size=%u pl=%llx", (unsigned long long)ord_of(m),
			    (unsigned long long)b, (unsigned long long)m->dest, (unsigned long long)tq_of(m->dest_t), m->m_type,
			    m->pl_size, (unsigned long long)gm_payload_digest(m->pl, m->pl_size));
			break;
		case VK_DEQUEUE:
			n_fossil_attempts += lps[b].fossil_epoch != fossil_epoch_current;
			OP("deq %u %llu", r, (unsigned long long)ord_of(m));
			if(r < VS_MAXT && tq_of(m->dest_t) < th_gvt[r])
				s_below_gvt++;
			RE("deq %llu lp=%llu tq=%llu type=%u%s", (unsigned long long)ord_of(m), (unsigned long long)b,
			    (unsigned long long)tq_of(m->dest_t), m->m_type,
			    (r < VS_MAXT && tq_of(m->dest_t) < th_gvt[r]) ? " BELOW-GVT" : "");
			break;
		case VK_FOSSIL_FREE: {
			const void *p = (const void *)(uintptr_t)(b & ~(uint64_t)3);
			OP("ffree %u %llu %llu %llu %u", r, (unsigned long long)a, (unsigned long long)ord_of(p),
			    (unsigned long long)c, (unsigned)(b & 3));
			/* a local-sent entry is only a stale reference (the receiver owns and may already have released
			 * and recycled the buffer): its ordinal is not meaningful, print 0 */
			RE("ffree lp=%llu m=%llu idx=%llu tag=%u", (unsigned long long)a,
			    (unsigned long long)((b & 3) == 1 ? 0 : ord_of(p)), (unsigned long long)c, (unsigned)(b & 3));
			break;
		}
		case VK_FOSSIL_DONE:
			n_fossil++;
			OP("fdone %u %llu %llu", r, (unsigned long long)a, (unsigned long long)b);
			lg_fossil(a, b);
			if(a < MAXLP)
				hbase[a] += b;
			RE("fdone lp=%llu n=%llu c03=%s", (unsigned long long)a, (unsigned long long)b, mode_rank ? "-" : "ok");
			break;
		case VK_EXTRACT:
			OP("ext %u %llu %llu", r, (unsigned long long)ord_of(m), (unsigned long long)b);
			RE("ext %llu f=%llu", (unsigned long long)ord_of(m), (unsigned long long)b);
			break;
		case VK_ANTI_DISCARD:
			OP("antid %u %llu %llu", r, (unsigned long long)ord_of(m), (unsigned long long)b);
			RE("antid %llu f=%llu", (unsigned long long)ord_of(m), (unsigned long long)b);
			break;
		case VK_ANTI_LOCAL:
			n_antis++;
			OP("antil %u %llu %llu", r, (unsigned long long)ord_of(m), (unsigned long long)b);
			RE("antil %llu f=%llu", (unsigned long long)ord_of(m), (unsigned long long)b);
			break;
		case VK_UNPROCESS:
			OP("unproc %u %llu %llu", r, (unsigned long long)ord_of(m), (unsigned long long)b);
			RE("unproc %llu f=%llu", (unsigned long long)ord_of(m), (unsigned long long)b);
			break;
		case VK_ROLLBACK:
			n_rollbacks++;
			lg_rollback(a, b);
			fflush(f_ops);
			fflush(f_c);
			OP("rb %u %llu %llu %llu", r, (unsigned long long)a, (unsigned long long)b, (unsigned long long)c);
			RE("rb lp=%llu past=%llu ref=%llu", (unsigned long long)a, (unsigned long long)b, (unsigned long long)c);
			fflush(f_ops); /* so that a later crash still leaves the decisive lines for the correspondence */
			fflush(f_c);
			break;
		case VK_SILENT: {
			n_silent++;
			const void *p = (const void *)(uintptr_t)c;
			OP("silent %u %llu %llu %llu", r, (unsigned long long)a, (unsigned long long)b,
			    (unsigned long long)ord_of(p));
			RE("silent lp=%llu idx=%llu m=%llu", (unsigned long long)a, (unsigned long long)b,
			    (unsigned long long)ord_of(p));
			break;
		}
		case VK_ROLLBACK_DONE:
			OP("rbdone %u %llu %llu", r, (unsigned long long)a, (unsigned long long)b);
			RE("rbdone lp=%llu past=%llu st=%llx", (unsigned long long)a, (unsigned long long)b,
			    (unsigned long long)lp_digest(a));
			if(a < MAXLP && dg[a] && hbase[a] + b < MAXH) {
				s_rb_checked++;
				s_rb_after_fossil += hbase[a] != 0;
				if(dg[a][hbase[a] + b] != lp_digest(a))
					s_rb_mismatch++;
			}
			break;
		case VK_FORWARD:
			n_fwd++;
			lg_forward(b, c, m->dest_t);
			OP("fwd %u %llu %llu %llu", r, (unsigned long long)ord_of(m), (unsigned long long)b, (unsigned long long)c);
			RE("fwd %llu lp=%llu idx=%llu st=%llx", (unsigned long long)ord_of(m), (unsigned long long)b,
			    (unsigned long long)c, (unsigned long long)lp_digest(b));
			if(b < MAXLP)
				dg_set(b, hbase[b] + c + 1, lp_digest(b));
			break;
		case VK_CKPT:
			n_ckpt++;
			OP("ckpt %u %llu %llu", r, (unsigned long long)a, (unsigned long long)b);
			RE("ckpt lp=%llu ref=%llu st=%llx", (unsigned long long)a, (unsigned long long)b,
			    (unsigned long long)lp_digest(a));
			if(a < MAXLP)
				dg_set(a, hbase[a] + b, lp_digest(a));
			break;
		case VK_MSG_FREE: {
			uint64_t o = ord_of(m);
			OP("free %u %llu", r, (unsigned long long)o);
			if(o < (1u << 24) && freed_ord[o]) {
				s_double_free++;
				RE("double-free %llu", (unsigned long long)o);
			} else {
				if(o < (1u << 24))
					freed_ord[o] = 1;
				n_free++;
				RE("free %llu", (unsigned long long)o);
			}
			break;
		}
		case VK_GVT:
			n_gvt++;
			if(r < VS_MAXT) {
				uint64_t g = tq_of(bits_dbl(a));
				if(g < th_gvt[r])
					s_gvt_decrease++;
				th_gvt[r] = g;
				unsigned k = gvt_round_cnt[r]++;
				if(k < (1 << 16)) {
					if(gvt_round_val[k] && gvt_round_val[k] != a + 1)
						s_gvt_disagree++;
					gvt_round_val[k] = a + 1;
				}
			}
			OP("gvt %u %llu", r, (unsigned long long)tq_of(bits_dbl(a)));
			RE("gvt %u tq=%llu", r, (unsigned long long)tq_of(bits_dbl(a)));
			break;
		case VK_TERM_VOTE:
			vote_oracle(a);
			OP("vote %u %llu %llu", r, (unsigned long long)tq_of(bits_dbl(a)), (unsigned long long)b);
			RE("vote %u tq=%llu lte=%llu", r, (unsigned long long)tq_of(bits_dbl(a)), (unsigned long long)b);
			break;
		case VK_TERM_INIT:
			lg_init(a);
			OP("terminit %u %llu", r, (unsigned long long)a);
			RE("terminit lp=%llu term=%llu lte=%llu", (unsigned long long)a, (unsigned long long)b, (unsigned long long)c);
			break;
		case VK_TERM_PROCESS:
			OP("termproc %u %llu", r, (unsigned long long)a);
			RE("termproc lp=%llu t=%llu lte=%llu", (unsigned long long)a, (unsigned long long)tq_of(bits_dbl(b)),
			    (unsigned long long)c);
			break;
		case VK_TERM_ROLLBACK:
			OP("termrb %u %llu", r, (unsigned long long)a);
			RE("termrb lp=%llu old=%llu keep=%llu", (unsigned long long)a, (unsigned long long)tq_of(bits_dbl(b)),
			    (unsigned long long)c);
			break;
		case VK_FINI_ENTRY: {
			const void *p = (const void *)(uintptr_t)(b & ~(uint64_t)3);
			OP("fini %u %llu %llu %llu %u", r, (unsigned long long)a, (unsigned long long)ord_of(p),
			    (unsigned long long)c, (unsigned)(b & 3));
			RE("fini lp=%llu m=%llu idx=%llu tag=%u%s", (unsigned long long)a,
			    (unsigned long long)((b & 3) == 1 ? 0 : ord_of(p)),
			    (unsigned long long)c, (unsigned)(b & 3),
			    (!(b & 3) && !mode_rank && r < VS_MAXT && tq_of(((const struct lp_msg *)p)->dest_t) < th_gvt[r]) ? " c03=ok" : "");
			break;
		}
		case VK_NODE_PHASE:
			if(f_g) {
				static const char *nm[] = {"?", "flip", "report", "coll", "poll", "done"};
				fprintf(f_g, "%s %u %llu %llu\n", nm[a < 6 ? a : 0], r, (unsigned long long)b, (unsigned long long)c);
			}
			break;
		case VK_RECV_REMOTE: {
			uint64_t o = ord_of(m);
			if(f_g)
				fprintf(f_g, "recv %u %u:%u:E:%d\n", r, m->raw_flags & ~3u, m->m_seq, (int)nid);
			fprintf(f_ops, "rrecv %u %llu %llu %llu %u %u %u %u ", r, (unsigned long long)o, (unsigned long long)m->dest,
			    (unsigned long long)tq_of(m->dest_t), m->m_type, m->pl_size, m->raw_flags, m->m_seq);
			fput_hex(f_ops, m->pl, m->pl_size);
			fputc('\n', f_ops);
			n_lines++;
			RE("rrecv %llu", (unsigned long long)o);
			break;
		}
		case VK_RECV_REMOTE_ANTI:
			if(f_g)
				fprintf(f_g, "recv %u %u:%u:A:%d\n", r, m->raw_flags & ~3u, m->m_seq, (int)nid);
			OP("rrecva %u %llu %llu %llu %u %u", r, (unsigned long long)ord_of(m), (unsigned long long)m->dest,
			    (unsigned long long)tq_of(m->dest_t), m->raw_flags, m->m_seq);
			RE("rrecva %llu", (unsigned long long)ord_of(m));
			break;
		case VK_SEND_REMOTE:
			if(f_g)
				fprintf(f_g, "send %u %d %u %u:%u:E:%d\n", r, (int)lid_to_nid(m->dest), m->m_seq & 1u, m->raw_flags & ~3u, m->m_seq, (int)lid_to_nid(m->dest));
			OP("rsend %u %llu %llu", r, (unsigned long long)ord_of(m), (unsigned long long)b);
			RE("rsend %llu from=%llu dest=%llu tq=%llu type=%u size=%u pl=%llx", (unsigned long long)ord_of(m),
			    (unsigned long long)b, (unsigned long long)m->dest, (unsigned long long)tq_of(m->dest_t), m->m_type,
			    m->pl_size, (unsigned long long)gm_payload_digest(m->pl, m->pl_size));
			break;
		case VK_ANTI_REMOTE:
			if(f_g)
				fprintf(f_g, "send %u %d %u %u:%u:A:%d\n", r, (int)lid_to_nid(m->dest), (m->raw_flags >> 1) & 1u, m->raw_flags & ~3u, m->m_seq, (int)lid_to_nid(m->dest));
			n_ev[39]++;
			n_antis++;
			OP("antir %u %llu", r, (unsigned long long)ord_of(m));
			RE("antir %llu", (unsigned long long)ord_of(m));
			break;
		case VK_MSG_FREE_AT_GVT:
			OP("fgvt %u %llu", r, (unsigned long long)ord_of(m));
			RE("fgvt %llu", (unsigned long long)ord_of(m));
			break;
		case VK_EARLY_ANTI:
			n_ev[38]++;
			OP("early %u %llu", r, (unsigned long long)ord_of(m));
			RE("early %llu", (unsigned long long)ord_of(m));
			break;
		case VK_EARLY_MATCH:
			OP("ematch %u %llu %llu", r, (unsigned long long)ord_of(m), (unsigned long long)ord_of((const void *)(uintptr_t)b));
			RE("ematch %llu %llu", (unsigned long long)ord_of(m), (unsigned long long)ord_of((const void *)(uintptr_t)b));
			break;
		case VK_DRAIN_STAGE:
			if(r < VS_MAXT)
				drain_stage[r] = (unsigned)a;
			OP("stage %u %llu", r, (unsigned long long)a);
			RE("stage %u %llu", r, (unsigned long long)a);
			break;
		default:
			break;
	}
}

/* ------------------------------------------------------------------ model callbacks */
static void on_init(lp_id_t me)
{
	static const uint64_t zero[4];
	const uint64_t *s = lps[me].rng_ctx ? lps[me].rng_ctx->state : zero;
	if(mode_par || mode_dist) {
		OP("init %u %llu %llx %llx %llx %llx", rid, (unsigned long long)me, (unsigned long long)s[0],
		    (unsigned long long)s[1], (unsigned long long)s[2], (unsigned long long)s[3]);
		RE("init lp=%llu", (unsigned long long)me);
	} else {
		OP("sinit %llu %llx %llx %llx %llx", (unsigned long long)me, (unsigned long long)s[0], (unsigned long long)s[1],
		    (unsigned long long)s[2], (unsigned long long)s[3]);
		RE("sinit %llu", (unsigned long long)me);
	}
}

static unsigned long n_dispatch, n_frozen_dispatch;
static uint64_t g_tterm_q;
static void on_dispatch(lp_id_t me, uint64_t tq, unsigned type, const void *pl, unsigned size, int frozen)
{
	n_dispatch++;
	n_frozen_dispatch += frozen;
	if(!mode_par && !mode_dist) {
		OP("sdisp");
		RE("d lp=%llu tq=%llu type=%u size=%u pl=%llx fr=%d", (unsigned long long)me, (unsigned long long)tq, type, size,
		    (unsigned long long)gm_payload_digest(pl, size), frozen);
	}
}

static void on_fini(lp_id_t me, const struct gm_state *st)
{
	uint64_t d = gm_digest(st, lps[me].rng_ctx ? lps[me].rng_ctx->state : NULL);
	static const struct gm_state none;
	if(!st)
		st = &none; /* stateless variant */
	if(mode_par || mode_dist) {
		OP("finilp %u %llu", rid, (unsigned long long)me);
		/* the final state is claimed to equal the sequential one only for predicate-terminated runs;
		 * a run stopped by a termination time ends in a speculative state */
		if(mode_rank)
			RE("finilp lp=%llu st=%llx cnt=%llu seq=-", (unsigned long long)me, (unsigned long long)d,
			    (unsigned long long)st->cnt);
		else if(mode_dist && g_tterm_q)
			RE("finilp lp=%llu seq=-", (unsigned long long)me);
		else if(mode_dist)
			RE("finilp lp=%llu seq=%llx cnt=%llu", (unsigned long long)me, (unsigned long long)d,
			    (unsigned long long)st->cnt);
		else if(g_tterm_q)
			RE("finilp lp=%llu st=%llx cnt=%llu seq=-", (unsigned long long)me, (unsigned long long)d,
			    (unsigned long long)st->cnt);
		else
			RE("finilp lp=%llu st=%llx cnt=%llu seq=%llx", (unsigned long long)me, (unsigned long long)d,
			    (unsigned long long)st->cnt, (unsigned long long)d);
	} else {
		OP("sfini %llu", (unsigned long long)me);
		RE("sfini lp=%llu st=%llx cnt=%llu thr=%llu", (unsigned long long)me, (unsigned long long)d,
		    (unsigned long long)st->cnt, (unsigned long long)gm_threshold(me));
	}
}

static void print_stats(const char *outcome)
{
	if(mode_dist || mode_rank)
		printf("RANK%d ", (int)nid);
	printf("{\"outcome\":\"%s\",\"lines\":%lu,\"dispatch\":%lu,\"frozen_dispatch\":%lu,\"fwd\":%lu,\"rollbacks\":%lu,"
	       "\"silent\":%lu,\"antis\":%lu,\"gvt\":%lu,\"ckpt\":%lu,\"fossil\":%lu,\"msgs\":%llu,\"steps\":%llu,"
	       "\"switches\":%llu,\"s_below_gvt\":%lu,\"s_rb_mismatch\":%lu,\"s_double_free\":%lu,\"s_rb_checked\":%lu,"
	       "\"s_rb_after_fossil\":%lu,\"s_gvt_decrease\":%lu,\"s_gvt_disagree\":%lu,\"allocs\":%lu,\"frees\":%lu,\"votes\":%lu,\"s_vote_false_pred\":%lu,\"s_vote_uncommitted\":%lu,\"s_stats_mismatch\":%lu,\"antis_remote\":%lu,\"early_antis\":%lu,\"fossil_attempts\":%lu",
	    outcome, n_lines, n_dispatch, n_frozen_dispatch, n_fwd, n_rollbacks, n_silent, n_antis, n_gvt, n_ckpt, n_fossil,
	    (unsigned long long)next_ord, (unsigned long long)vs_steps, (unsigned long long)vs_switches, s_below_gvt,
	    s_rb_mismatch, s_double_free, s_rb_checked, s_rb_after_fossil, s_gvt_decrease, s_gvt_disagree, n_alloc, n_free,
	    n_votes, s_vote_false_pred, s_vote_uncommitted, ac_mismatch(), n_ev[39], n_ev[38], n_fossil_attempts);
#ifdef VERIF_FAKE_PEER
	printf(",\"peer_events\":%lu,\"peer_antis\":%lu,\"peer_anti_with_event\":%lu,\"peer_responses\":%lu,\"peer_got_events\":%lu,"
	       "\"peer_got_antis\":%lu,\"peer_rounds\":%lu,\"peer_forced_deliveries\":%lu,\"s_remote_id_not_unique\":%lu,\"s_sent_count_wrong\":%lu,\"s_peer_below_gvt\":%lu,\"peer_delayed_deliveries\":%lu",
	    fm_n_ev, fm_n_anti, fm_n_anti_first, fm_n_resp, fm_n_recv_ev, fm_n_recv_anti, fm_n_rounds, fm_n_forced, fm_dup_ids, fm_sent_count_wrong, fm_peer_below_gvt, fm_n_delayed);
#endif
	printf(",\"points\":[");
	for(int t = 0; t < vs_registered && t < VS_MAXT; ++t)
		printf("%s{\"last\":%u,\"stage\":%u}", t ? "," : "", vs_point[t], drain_stage[t]);
	printf("]}\n");
	fflush(stdout);
}

static void on_hang(void)
{
	/* classify: per-thread last scheduling point and drain stage */
	fprintf(f_ops, "hang");
	fprintf(f_c, "hang");
	for(int t = 0; t < vs_registered; ++t) {
		fprintf(f_ops, " %u:%u", vs_point[t], drain_stage[t]);
		fprintf(f_c, " %u:%u", vs_point[t], drain_stage[t]);
	}
	fputc('\n', f_ops);
	fputc('\n', f_c);
	fflush(f_ops);
	fflush(f_c);
	uint64_t idle = vs_steps - last_event_step;
	if(idle >= 60000 || idle * 4 >= vs_steps)
		print_stats("hang");
	else if(term_ready && vs_steps - term_ready_step >= 300000 && vs_steps - term_ready_step >= 2 * term_ready_step)
		print_stats("nonterm");
	else
		print_stats("budget");
	_exit(3);
}

static uint64_t argu(int argc, char **argv, const char *k, uint64_t d)
{
	size_t n = strlen(k);
	for(int i = 4; i < argc; ++i)
		if(!strncmp(argv[i], k, n) && argv[i][n] == '=')
			return strtoull(argv[i] + n + 1, NULL, 0);
	return d;
}

int main(int argc, char **argv)
{
	if(argc < 4)
		return 2;
	mode_par = !strcmp(argv[1], "par");
	mode_dist = !strcmp(argv[1], "dist");
	mode_rank = !strcmp(argv[1], "rank");
	if(mode_rank)
		mode_par = 1; /* same vocabulary and oracles as par */
	ops_path = argv[2];
	c_path = argv[3];
	if(!mode_dist && !mode_rank) {
		f_ops = xfopen(argv[2], "w");
		f_c = xfopen(argv[3], "w");
	}
	vrng_state = argu(argc, argv, "seed", 1);
	GM.seed = argu(argc, argv, "mseed", 1);
	GM.n_lps = argu(argc, argv, "lps", 4);
	GM.n_types = argu(argc, argv, "types", 3);
	GM.max_fan = argu(argc, argv, "fan", 3);
	GM.thr_base = argu(argc, argv, "thr", 50);
	GM.thr_spread = argu(argc, argv, "spread", 20);
	GM.use_rng = argu(argc, argv, "rng", 1);
	GM.mem_ops = argu(argc, argv, "mem", 1);
	/* key t0: bit 0 = events at time stamp 0 (the original meaning), bit 1 = V2-only mode (zero-delay forwards of identical
	 * content, genmodel.h); the model line carries the same two bits in its t0 field */
	GM.t0_events = argu(argc, argv, "t0", 0) & 1;
	GM.fwd_tok = (argu(argc, argv, "t0", 0) >> 1) & 1;
	GM.lib = argu(argc, argv, "lib", 0);
	GM.live = argu(argc, argv, "live", 0);
	GM.nostate = argu(argc, argv, "nostate", 0);
	GM.stop_at = (mode_par || mode_dist) ? argu(argc, argv, "stopat", 0) : 0;
	GM.skew = argu(argc, argv, "skew", 0);
	unsigned threads = argu(argc, argv, "threads", 2);
	unsigned ckpt = argu(argc, argv, "ckpt", 3);
	vperiod = argu(argc, argv, "period", 1000);
	vs_stay = argu(argc, argv, "stay", 2);
	vs_budget = argu(argc, argv, "budget", 3000000);
	vs_burst = argu(argc, argv, "burst", 0);
	hr_batch = (unsigned)argu(argc, argv, "batch", 0);
	uint64_t tterm_q = argu(argc, argv, "tterm", 0);
	g_tterm_q = tterm_q;
	freed_ord = calloc(1u << 24, 1);
	gm_on_dispatch = on_dispatch;
	gm_on_init = on_init;
	gm_on_fini = on_fini;

	snprintf(rank_model_line, sizeof rank_model_line, "model %llu %u %u %u %u %u %u %u %u %u %u %llu %u",
	    (unsigned long long)GM.seed, GM.n_lps, GM.n_types, GM.max_fan, GM.thr_base, GM.thr_spread, GM.use_rng, GM.mem_ops,
	    GM.t0_events | (GM.fwd_tok << 1), threads, ckpt, (unsigned long long)tterm_q, GM.skew);
	if(!mode_dist && !mode_rank) {
		OP("model %llu %u %u %u %u %u %u %u %u %u %u %llu %u", (unsigned long long)GM.seed, GM.n_lps, GM.n_types,
		    GM.max_fan, GM.thr_base, GM.thr_spread, GM.use_rng, GM.mem_ops, GM.t0_events | (GM.fwd_tok << 1), threads, ckpt,
		    (unsigned long long)tterm_q, GM.skew);
		RE("model ok");
		OP("period %llu", (unsigned long long)vperiod);
		RE("period");
		if(mode_par && (argu(argc, argv, "tw", 0) & 1)) {
			/* ask the re-execution to step the abstract global Time Warp machine alongside (single rank only) */
			OP("twshadow");
			RE("twshadow ok");
		}
		if(mode_par && (argu(argc, argv, "tw", 0) & 2)) {
			/* tw=2 (or 3: both): step the INSTRUMENTED machine (Model/TimeWarpG.lean, ghost creation order, contract V2) */
			OP("twgshadow");
			RE("twgshadow ok");
		}
	}

	struct simulation_configuration conf = {.lps = GM.n_lps,
	    .n_threads = (mode_par || mode_dist) ? threads : 1,
	    .termination_time = tterm_q ? (double)tterm_q / 4.0 : 0,
	    .gvt_period = (unsigned)vperiod,
	    .log_level = LOG_SILENT,
	    .stats_file = NULL,
	    .ckpt_interval = ckpt,
	    .prng_seed = argu(argc, argv, "pseed", 12345),
	    .core_binding = false,
	    .serial = !(mode_par || mode_dist),
	    .dispatcher = gm_process,
	    .committed = gm_can_end};
	if(RootsimInit(&conf))
		return 2;
#ifdef VERIF_FAKE_PEER
	fm_budget = (unsigned)argu(argc, argv, "pev", 300);
	fm_cancel_pct = (unsigned)argu(argc, argv, "pcancel", 25);
	fm_reflect_pct = (unsigned)argu(argc, argv, "preflect", 30);
	fm_lag = (unsigned)argu(argc, argv, "plag", 3);
	fm_spread = (unsigned)argu(argc, argv, "pspread", 16);
	fm_max_age = (unsigned)argu(argc, argv, "page", 40);
	fm_cancel_span = (unsigned)argu(argc, argv, "pspan", 400);
	fm_window = (unsigned)argu(argc, argv, "pwin", 24);
	fm_late_burst = (unsigned)argu(argc, argv, "plate", 6);
	fm_hold = (unsigned)argu(argc, argv, "phold", 0);
	fm_ntypes = GM.n_types;
#else
	if(mode_dist || mode_rank)
		vs_budget = argu(argc, argv, "budget", UINT64_MAX / 2); /* ranks wait for each other: wall-clock watchdog instead */
#endif
	if(mode_par || mode_dist) {
		vs_on_hang = on_hang;
		vs_init((int)threads);
	}
	int rc = RootsimRun();
	if((mode_dist || mode_rank) && !f_ops)
		dist_open();
	OP("end");
	if(mode_par) {
		unsigned long leaked = 0;
		for(uint64_t o = 0; o < next_ord && o < (1u << 24); ++o)
			leaked += !freed_ord[o];
		RE("end allocs=%lu frees=%lu leaked=%lu", n_alloc, n_free, leaked);
	} else
		RE("end");
	fclose(f_ops);
	fclose(f_c);
	print_stats(rc ? "error" : "ok");
	return rc ? 4 : 0;
}
