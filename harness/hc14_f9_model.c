/* F9 replay (C14/C08): <argv[1]> LPs on the REAL parallel runtime, to be started with mpiexec -n <ranks>; every LP
 * handles LP_INIT and one event and agrees to terminate at once. With fewer LPs than ranks the run never returns. */
#include <ROOT-Sim.h>
#include <stdio.h>
#include <stdlib.h>
static void dispatch(lp_id_t me, simtime_t now, unsigned type, const void *c, unsigned size, void *st)
{
	(void)now; (void)c; (void)size; (void)st;
	if(type == LP_INIT) {
		ScheduleNewEvent(me, 1.0, 1, NULL, 0);
		return;
	}
	if(type == LP_FINI) return;
}
static bool can_end(lp_id_t me, const void *snapshot) { (void)me; (void)snapshot; return true; }
int main(int argc, char **argv)
{
	struct simulation_configuration conf = {0};
	conf.lps = argc > 1 ? strtoull(argv[1], NULL, 0) : 1;
	conf.n_threads = 1;
	conf.termination_time = 10;
	conf.gvt_period = 1000;
	conf.log_level = LOG_SILENT;
	conf.dispatcher = dispatch;
	conf.committed = can_end;
	if(RootsimInit(&conf)) return 2;
	int r = RootsimRun();
	printf("run returned %d\n", r);
	return r;
}
