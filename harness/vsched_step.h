/* vsched_step.h - step-driven deterministic cooperative scheduler for the /verif unit harnesses (DESIGN.md section 2.5).
 * (Named vsched_step.h because the integrator's full-run scheduler already owns the name harness/vsched.h; this one is
 * driven step by step by the harness: `vs_step(tid)` runs ONE thread from its yield point to the next.)
 *
 * Worker threads are REAL pthreads (the core keeps per-thread state in `__thread` variables), but they
 * are serialised by a token: exactly one of {scheduler, worker 0, ..., worker n-1} runs at any time.
 * The core calls `verif_yield(point)` at its scheduling points (VERIF_YIELD in core/verif.h, compiled in
 * with -DROOTSIM_VERIF); the strong definition below hands the token back to the scheduler, which picks
 * the next thread from the seeded PRNG `vrng` (vcommon.h) or from a recorded schedule (replay).
 * Consequently an execution is a function of (seed | schedule) only, and the sequence of thread ids is
 * a complete replay of it. All hand-overs go through semaphores, which also makes every access of the
 * code under test properly ordered (no data race is introduced by the harness).
 *
 * A harness that includes this file must NOT include vhooks_default.h / stubs_min.h (they define a weak
 * verif_yield in the same translation unit); it defines verif_trace itself (or uses VS_DEFAULT_TRACE).
 *
 * API
 *   vs_spawn(n, fn, arg)     create n workers running fn(tid, arg); they wait for their first step
 *   vs_step(tid)             give the token to `tid` until its next yield / its end;
 *                            returns the yield point it stopped at, 0 if the thread has finished
 *   vs_point(tid), vs_done(tid), vs_alive()
 *   vs_pick()                next thread id: from the replay schedule if one is loaded, otherwise a
 *                            weighted random choice among the threads that are not finished
 *                            (weights: vs_weight[tid], default 1; vs_sticky_pct = probability in % to
 *                            keep running the thread chosen last); -1 when nothing can be picked
 *   vs_load_schedule(path)   replay: whitespace separated thread ids ("step <tid>" lines are accepted:
 *                            every token that is not a number is skipped)
 *   vs_budget                maximal number of steps (0 = unlimited); vs_pick() returns -2 when exhausted:
 *                            the harness reports a classified HANG instead of blocking the check
 *   vs_join()                join the (finished) workers
 */
#pragma once
#include "vcommon.h"
#include <ctype.h>
#include <pthread.h>
#include <semaphore.h>

#define VS_MAX_THREADS 16
typedef void (*vs_fn)(unsigned tid, void *arg);

struct vs_thread {
	pthread_t th;
	sem_t go;
	unsigned tid;
	unsigned point; /* last yield point (valid while !done) */
	int done;
	unsigned long steps;
	vs_fn fn;
	void *arg;
};

static struct vs_thread vs_th[VS_MAX_THREADS];
static unsigned vs_n;
static sem_t vs_back;
static __thread struct vs_thread *vs_self;
static unsigned long vs_steps, vs_budget;
static unsigned vs_weight[VS_MAX_THREADS];
static unsigned vs_sticky_pct;
static int vs_last = -1;
static int *vs_sched;
static unsigned long vs_sched_n, vs_sched_i;

/* the hook called by the code under test */
void verif_yield(unsigned point)
{
	struct vs_thread *t = vs_self;
	if(!t) /* called outside a scheduled worker (e.g. initialisation code on the main thread) */
		return;
	t->point = point;
	sem_post(&vs_back);
	sem_wait(&t->go);
}

#ifdef VS_DEFAULT_TRACE
void verif_trace(unsigned kind, uint64_t a, uint64_t b, uint64_t c)
{
	(void)kind; (void)a; (void)b; (void)c;
}
#endif

static void *vs_tramp(void *p)
{
	struct vs_thread *t = p;
	vs_self = t;
	sem_wait(&t->go);
	t->fn(t->tid, t->arg);
	t->done = 1;
	t->point = 0;
	sem_post(&vs_back);
	return NULL;
}

static void vs_spawn(unsigned n, vs_fn fn, void *arg)
{
	if(n > VS_MAX_THREADS) {
		fprintf(stderr, "vsched: too many threads\n");
		exit(2);
	}
	vs_n = n;
	vs_steps = 0;
	vs_last = -1;
	sem_init(&vs_back, 0, 0);
	for(unsigned i = 0; i < n; ++i) {
		struct vs_thread *t = &vs_th[i];
		memset(t, 0, sizeof(*t));
		t->tid = i;
		t->fn = fn;
		t->arg = arg;
		if(!vs_weight[i])
			vs_weight[i] = 1;
		sem_init(&t->go, 0, 0);
		if(pthread_create(&t->th, NULL, vs_tramp, t)) {
			perror("pthread_create");
			exit(2);
		}
	}
}

static inline int vs_done(unsigned tid) { return vs_th[tid].done; }
static inline unsigned vs_point(unsigned tid) { return vs_th[tid].point; }
static inline unsigned vs_alive(void)
{
	unsigned k = 0;
	for(unsigned i = 0; i < vs_n; ++i)
		k += !vs_th[i].done;
	return k;
}

/* run `tid` until its next yield point (returned) or its end (0) */
static unsigned vs_step(unsigned tid)
{
	struct vs_thread *t = &vs_th[tid];
	if(tid >= vs_n || t->done) {
		fprintf(stderr, "vsched: step of a finished/unknown thread %u\n", tid);
		exit(2);
	}
	vs_steps++;
	t->steps++;
	vs_last = (int)tid;
	sem_post(&t->go);
	sem_wait(&vs_back);
	return t->done ? 0 : t->point;
}

static int vs_pick(void)
{
	if(vs_budget && vs_steps >= vs_budget)
		return -2;
	if(vs_sched) {
		while(vs_sched_i < vs_sched_n) {
			int t = vs_sched[vs_sched_i++];
			if(t >= 0 && (unsigned)t < vs_n && !vs_th[t].done)
				return t;
		}
		return -1;
	}
	if(!vs_alive())
		return -1;
	if(vs_last >= 0 && !vs_th[vs_last].done && vs_sticky_pct && vrng_below(100) < vs_sticky_pct)
		return vs_last;
	uint64_t tot = 0;
	for(unsigned i = 0; i < vs_n; ++i)
		if(!vs_th[i].done)
			tot += vs_weight[i];
	uint64_t r = vrng_below(tot);
	for(unsigned i = 0; i < vs_n; ++i) {
		if(vs_th[i].done)
			continue;
		if(r < vs_weight[i])
			return (int)i;
		r -= vs_weight[i];
	}
	return -1;
}

static void vs_load_schedule(const char *path)
{
	FILE *f = xfopen(path, "r");
	unsigned long cap = 1024;
	vs_sched = malloc(cap * sizeof(int));
	vs_sched_n = vs_sched_i = 0;
	char tok[64];
	while(fscanf(f, "%63s", tok) == 1) {
		if(!isdigit((unsigned char)tok[0]))
			continue;
		if(vs_sched_n == cap)
			vs_sched = realloc(vs_sched, (cap *= 2) * sizeof(int));
		vs_sched[vs_sched_n++] = atoi(tok);
	}
	fclose(f);
}

static void vs_join(void)
{
	for(unsigned i = 0; i < vs_n; ++i)
		if(vs_th[i].done)
			pthread_join(vs_th[i].th, NULL);
}
