/* C18 harness (+ the RNG facts of C09): the REAL src/lib/random/random.c and xxtea.c (linked as
 * separate translation units from the working tree) driven with crafted generator states.
 * usage: hc18 <seed> <n_random> <ops_out> <c_out> <oracle_out>
 *  ops_out    : one protocol line per operation (fed to the Lean driver, mode rand[-fs][-fm])
 *  c_out      : the C results for the same lines (doubles as hex bit patterns)
 *  oracle_out : S oracle - the property evaluated directly on the implementation, one line per failure:
 *                 UB-SHIFT ...            Random() aborted under UBSan (child process)
 *                 RANGE <fn> ...          result outside the documented range / not finite
 *                 OTHERGEN <fn> ...       a generator other than the caller's changed
 *                 DRAWS <fn> ...          caller's generator not advanced by the expected number of raw draws
 *                 ROUNDTRIP ...           xxtea_decode(xxtea_encode(v)) != v
 *                 SEED ...                random_lib_lp_init not a function of (lp, seed)
 *                 TIE <fn> ...            Poisson/Gamma differ from -log(x) of the modelled operand chain; Gamma(ia >= 6)
 *                                         differs from the statement-by-statement mirror of the rejection branch
 * stdout: one JSON line of statistics.
 */
#include "vcommon.h"
#include "stubs_min.h"
#include <lp/lp.h>
#include <lib/random/random.h>
#include <lib/random/xoroshiro.h>
#include <lib/random/xxtea.h>
#include <ROOT-Sim.h>
#include <limits.h>
#include <math.h>
#include <sys/wait.h>
#include <unistd.h>

__thread struct lp_ctx *current_lp;

/* two LP contexts; generator blocks with canaries around the state */
struct guarded {
	uint64_t pre[2];
	struct rng_ctx ctx;
	uint64_t post[2];
};
static struct lp_ctx lpv[2]; /* like the runtime's lps[]: caller = lpv[0], a neighbour = lpv[1] */
#define lp_a lpv[0]
#define lp_b lpv[1]
static struct guarded ga, gb, gb_ref;

static FILE *f_ops, *f_c, *f_or;
static unsigned long n_lines, n_viol, n_other_checks, n_range_checks, n_draw_checks, cnt_gamma_big, cnt_gammabig1, cnt_fop,
    cnt_gb_v1zero, cnt_gb_multipass, cnt_gb_tie;
static int gamma_fixed; /* the inner loop of Gamma() rejects v1 == 0.0 (F14 repaired): observed on the implementation */
static unsigned long cnt_next, cnt_bits, cnt_random, cnt_seed, cnt_xxtea, cnt_range, cnt_rrange, cnt_nonuni, cnt_nonuni_neg,
    cnt_onem, cnt_mul, cnt_gammax, cnt_poisson, cnt_gamma, cnt_zipf, cnt_normal, zipf_max_draws;
static unsigned long lz_hist[65]; /* leading-one position + 1 of the raw outputs fed to Random() (0 = raw 0) */
static int u1_ok;                 /* raw output 1 is safe to use in-process (patched tree) */
static char u1_result[64];

static const uint32_t seeding_key_copy[4] = {UINT32_C(0xd0a8f58a), UINT32_C(0x33359424), UINT32_C(0x09baa55b),
    UINT32_C(0x80e1bdb0)};

#define HX(x) ((unsigned long long)(x))

static uint64_t rotr64(uint64_t x, unsigned k) { return (x >> k) | (x << (64 - k)); }
/* state[1] such that the next raw output is u (inverse of s1 -> rotl(s1*5,7)*9) */
static uint64_t craft_s1(uint64_t u) { return 0xCCCCCCCCCCCCCCCDull * rotr64(0x8E38E38E38E38E39ull * u, 7); }

/* next raw output u1, the one after it u2 */
static void craft2(struct rng_ctx *c, uint64_t u1, uint64_t u2)
{
	uint64_t c1 = craft_s1(u1), c2 = craft_s1(u2);
	c->state[0] = 0;
	c->state[1] = c1;
	c->state[2] = c1 ^ c2;
	c->state[3] = vrng();
}
static void craft1(struct rng_ctx *c, uint64_t u)
{
	c->state[0] = vrng();
	c->state[1] = craft_s1(u);
	c->state[2] = vrng();
	c->state[3] = vrng();
}
static void rnd_state(struct rng_ctx *c)
{
	for(int i = 0; i < 4; ++i)
		c->state[i] = vrng();
}
static void print_state(FILE *f, const struct rng_ctx *c)
{
	fprintf(f, "%llx %llx %llx %llx", HX(c->state[0]), HX(c->state[1]), HX(c->state[2]), HX(c->state[3]));
}
static void advance(struct rng_ctx *c, unsigned k)
{
	while(k--)
		(void)random_u64(c->state);
}

static void viol(const char *fmt, ...)
{
	va_list ap;
	va_start(ap, fmt);
	vfprintf(f_or, fmt, ap);
	va_end(ap);
	fputc('\n', f_or);
	fflush(f_or); /* survive a later sanitizer abort */
	n_viol++;
}

/* ---- only-caller's-generator oracle ------------------------------------------------------ */
static void other_arm(void)
{
	for(int i = 0; i < 2; ++i) {
		ga.pre[i] = gb.pre[i] = 0xA5A5A5A5A5A5A5A5ull;
		ga.post[i] = gb.post[i] = 0x5A5A5A5A5A5A5A5Aull;
	}
	rnd_state(&gb.ctx);
	gb_ref = gb;
}
static void other_check(const char *fn)
{
	n_other_checks++;
	if(memcmp(&gb, &gb_ref, sizeof(gb)))
		viol("OTHERGEN %s other LP's generator block changed", fn);
	if(ga.pre[0] != 0xA5A5A5A5A5A5A5A5ull || ga.pre[1] != 0xA5A5A5A5A5A5A5A5ull ||
	    ga.post[0] != 0x5A5A5A5A5A5A5A5Aull || ga.post[1] != 0x5A5A5A5A5A5A5A5Aull)
		viol("OTHERGEN %s bytes around the caller's generator changed", fn);
	if(current_lp != &lp_a || lp_a.rng_ctx != &ga.ctx || lp_b.rng_ctx != &gb.ctx)
		viol("OTHERGEN %s context pointers changed", fn);
}
/* the caller's generator must equal `before` advanced by exactly k raw draws */
static void draws_check(const char *fn, const struct rng_ctx *before, unsigned k)
{
	struct rng_ctx c = *before;
	advance(&c, k);
	n_draw_checks++;
	if(memcmp(&c, &ga.ctx, sizeof(c)))
		viol("DRAWS %s expected %u raw draws from state %llx %llx %llx %llx", fn, k, HX(before->state[0]),
		    HX(before->state[1]), HX(before->state[2]), HX(before->state[3]));
}

/* ---- the u = 1 probe, in a child process --------------------------------------------------- */
static void probe_u1(void)
{
	int pd[2], pe[2];
	if(pipe(pd) || pipe(pe)) exit(2);
	fflush(NULL);
	pid_t pid = fork();
	if(pid < 0) exit(2);
	if(pid == 0) {
		close(pd[0]);
		close(pe[0]);
		dup2(pe[1], 2);
		craft1(&ga.ctx, 1);
		double d = Random();
		char buf[32];
		int n = snprintf(buf, sizeof buf, "%llx", HX(dbl_bits(d)));
		if(write(pd[1], buf, n) != n) _exit(3);
		_exit(0);
	}
	close(pd[1]);
	close(pe[1]);
	char out[64] = {0}, err[4096] = {0};
	ssize_t no = read(pd[0], out, sizeof(out) - 1);
	size_t ne = 0;
	ssize_t r;
	while(ne < sizeof(err) - 1 && (r = read(pe[0], err + ne, sizeof(err) - 1 - ne)) > 0)
		ne += r;
	int st = 0;
	waitpid(pid, &st, 0);
	close(pd[0]);
	close(pe[0]);
	if(WIFEXITED(st) && WEXITSTATUS(st) == 0 && no > 0) {
		u1_ok = 1;
		snprintf(u1_result, sizeof u1_result, "%s", out);
	} else if(strstr(err, "shift exponent 64")) {
		u1_ok = 0;
		snprintf(u1_result, sizeof u1_result, "UB-shift");
		char *msg = strstr(err, "runtime error") ? strstr(err, "runtime error") : err;
		msg[strcspn(msg, "\r\n")] = 0;
		viol("UB-SHIFT Random() with raw generator output 1: %.120s", msg);
	} else {
		u1_ok = 0;
		snprintf(u1_result, sizeof u1_result, "crash");
		for(char *q = err; *q; ++q)
			if(*q == '\n' || *q == '\r') *q = ' ';
		viol("CRASH Random() with raw generator output 1 status=%d %.200s", st, err);
	}
	char *nl = strchr(u1_result, '\n');
	if(nl) *nl = 0;
	fprintf(f_ops, "bits 1\n");
	fprintf(f_c, "%s\n", u1_result);
	n_lines++;
	cnt_bits++;
}

/* ---- the rejection branch of Gamma(), mirrored statement by statement (same compiler, same flags) ------------ */
struct gchain {
	unsigned k; /* passes of the inner loop */
	int stuck;
	double v1, v2, y;
};
#define GCHAIN_FUEL 64u /* = Driver.gammaBig1Fuel */
/* one inner loop + y, drawing from the caller's generator (ga.ctx) */
static void gamma_chain(int fixed, struct gchain *c)
{
	double v1, v2;
	c->k = 0;
	c->stuck = 0;
	c->v1 = c->v2 = c->y = 0.0;
	for(;;) {
		if(c->k == GCHAIN_FUEL) {
			c->stuck = 1;
			return;
		}
		v1 = Random();
		v2 = 2.0 * Random() - 1.0;
		c->k++;
		if(!((fixed && v1 == 0.0) || v1 * v1 + v2 * v2 > 1.0)) break;
	}
	c->v1 = v1;
	c->v2 = v2;
	c->y = v2 / v1;
}
/* the whole branch; gives up (returns -1.0, *gave_up = 1) after `cap` passes of a loop */
static double gamma_mirror(int fixed, unsigned ia, unsigned long cap, int *gave_up)
{
	double x, y, s;
	double am = ia - 1;
	unsigned long outer = 0;
	*gave_up = 0;
	do {
		double v1, v2;
		unsigned long inner = 0;
		if(++outer > cap) { *gave_up = 1; return -1.0; }
		do {
			if(++inner > cap) { *gave_up = 1; return -1.0; }
			v1 = Random();
			v2 = 2.0 * Random() - 1.0;
		} while((fixed && v1 == 0.0) || v1 * v1 + v2 * v2 > 1.0);
		y = v2 / v1;
		s = sqrt(2.0 * am + 1.0) * y;
		x = s + am;
	} while(x < 0.0 || Random() > (1.0 + y * y) * exp(am * log(x / am) - s));
	return x;
}
/* canonical bits: every NaN -> 7ff8000000000000, -0.0 -> 0 (the Lean model has one zero and one NaN) */
static uint64_t cbits(double d)
{
	if(d != d) return 0x7ff8000000000000ull;
	if(d == 0.0) return 0;
	return dbl_bits(d);
}
static const char *fclass_s(double d) { return d != d ? "nan" : isinf(d) ? (d > 0 ? "+inf" : "-inf") : "fin"; }
static const char *fsign_s(double d) { return d != d ? "?" : d < 0 ? "-" : d == 0.0 ? "0" : "+"; }
/* an operand for the `fop` lines: specials, random bit patterns, values near a partner's exponent */
static double fop_operand(unsigned long i, double partner)
{
	static const uint64_t SP[] = {0, 0x3ff0000000000000ull, 0xbff0000000000000ull, 0x7ff0000000000000ull,
	    0xfff0000000000000ull, 0x7ff8000000000000ull, 1, 0x8000000000000001ull, 0x000fffffffffffffull,
	    0x0010000000000000ull, 0x7fefffffffffffffull, 0xffefffffffffffffull, 0x4000000000000000ull,
	    0x3fe0000000000000ull, 0x3ca0000000000000ull, 0x4340000000000000ull, 0x3ff0000000000001ull,
	    0x3fefffffffffffffull, 0x0000000000000002ull, 0x0000000000000003ull};
	uint64_t b;
	switch(i % 5) {
	case 0: b = SP[vrng_below(sizeof SP / sizeof *SP)]; break;
	case 1: b = vrng(); break;
	case 2: { /* exponent close to the partner's: cancellation, ties */
		uint64_t e = (dbl_bits(partner) >> 52) & 0x7ff;
		e = (e + 2047 + vrng_below(5) - 2) % 2047;
		b = (vrng() & 0x800fffffffffffffull) | (e << 52);
		if(vrng_below(3) == 0) b &= ~((1ull << vrng_below(52)) - 1); /* few significant bits */
		break;
	}
	case 3: { /* magnitudes around 1: the operands of the Gamma chain */
		uint64_t e = 1023 - 64 + vrng_below(130);
		b = (vrng() & 0x800fffffffffffffull) | (e << 52);
		break;
	}
	default: { /* tiny or huge: underflow / overflow of products and quotients */
		uint64_t e = vrng_below(2) ? vrng_below(120) : 2046 - vrng_below(120);
		b = (vrng() & 0x800fffffffffffffull) | (e << 52);
		break;
	}
	}
	double d = bits_dbl(b);
	if(d == 0.0) d = 0.0; /* no negative zero operand (the model has one zero; x / -0.0 would differ) */
	return d;
}

/* ---- raw outputs of interest ------------------------------------------------------------------ */
static uint64_t *us;
static size_t n_us;
static void add_u(uint64_t u)
{
	if(u == 1 && !u1_ok) return;
	us[n_us++] = u;
}
static uint64_t rnd_u(void)
{
	/* every leading-one position equally likely */
	unsigned k = 1 + (unsigned)vrng_below(64);
	uint64_t top = 1ull << (k - 1);
	uint64_t u = top | (vrng() & (top - 1));
	if(u == 1 && !u1_ok) u = 2;
	return u;
}
static void note_u(uint64_t u) { lz_hist[u ? 64 - __builtin_clzll(u) : 0]++; }

static double real_random_with(uint64_t u, struct rng_ctx *before)
{
	craft1(&ga.ctx, u);
	if(before) *before = ga.ctx;
	return Random();
}

static void check_unit(const char *fn, double d, uint64_t u)
{
	n_range_checks++;
	if(!(d >= 0.0 && d < 1.0)) viol("RANGE %s raw=%llx value bits %llx not in [0,1)", fn, HX(u), HX(dbl_bits(d)));
}

struct rr { int min, max; };

int main(int argc, char **argv)
{
	if(argc < 6) return 2;
	vrng_state = strtoull(argv[1], NULL, 0);
	unsigned long n = strtoul(argv[2], NULL, 0);
	f_ops = xfopen(argv[3], "w");
	f_c = xfopen(argv[4], "w");
	f_or = xfopen(argv[5], "w");

	lp_a.rng_ctx = &ga.ctx;
	lp_b.rng_ctx = &gb.ctx;
	current_lp = &lp_a;
	other_arm();

	probe_u1();

	/* boundary raw outputs */
	us = malloc(sizeof(*us) * (600 + n));
	add_u(0); add_u(1); add_u(2); add_u(3);
	for(unsigned k = 1; k < 64; ++k) {
		add_u(1ull << k);
		add_u((1ull << k) + 1);
		add_u((1ull << k) - 1);
		add_u((1ull << k) | (1ull << (k - 1)));         /* 1.5 * 2^k */
		if(k >= 53) {
			add_u(((1ull << 53) - 1) << (k - 52));        /* all-ones significand, zero tail */
			add_u((((1ull << 53) - 1) << (k - 52)) | ((1ull << (k - 52)) - 1)); /* = 2^(k+1)-1 */
			add_u((1ull << k) | ((1ull << (k - 52)) - 1)); /* only truncated bits set */
		}
	}
	add_u(~0ull); add_u(~0ull - 1);
	size_t n_boundary = n_us;
	for(unsigned long i = 0; i < n; ++i)
		add_u(rnd_u());

	/* (1) xoshiro step */
	for(unsigned long i = 0; i < n / 4 + 8; ++i) {
		struct rng_ctx c;
		rnd_state(&c);
		if(i == 0) memset(&c, 0, sizeof c);
		if(i == 1) memset(&c, 0xff, sizeof c);
		if(i == 2) { memset(&c, 0, sizeof c); c.state[1] = 1; }
		if(i == 3) { memset(&c, 0, sizeof c); c.state[3] = 1ull << 63; }
		if(i >= 4 && i < 8) c.state[i - 4] = 0;
		fprintf(f_ops, "next ");
		print_state(f_ops, &c);
		fputc('\n', f_ops);
		ga.ctx = c;
		uint64_t r = RandomU64();
		other_check("RandomU64");
		draws_check("RandomU64", &c, 1);
		fprintf(f_c, "%llx ", HX(r));
		print_state(f_c, &ga.ctx);
		fputc('\n', f_c);
		n_lines++; cnt_next++;
	}

	/* (2) Random(): bit patterns for chosen raw outputs; whole call on random states */
	for(size_t i = 0; i < n_us; ++i) {
		uint64_t u = us[i];
		struct rng_ctx before;
		double d = real_random_with(u, &before);
		struct rng_ctx chk = before;
		if(random_u64(chk.state) != u) { fprintf(stderr, "crafting failed\n"); return 3; }
		other_check("Random");
		draws_check("Random", &before, 1);
		check_unit("Random", d, u);
		note_u(u);
		fprintf(f_ops, "bits %llx\n", HX(u));
		fprintf(f_c, "%llx\n", HX(dbl_bits(d)));
		n_lines++; cnt_bits++;
	}
	for(unsigned long i = 0; i < n / 4; ++i) {
		rnd_state(&ga.ctx);
		struct rng_ctx before = ga.ctx, chk = before;
		if(random_u64(chk.state) == 1 && !u1_ok) continue;
		fprintf(f_ops, "random ");
		print_state(f_ops, &before);
		fputc('\n', f_ops);
		double d = Random();
		check_unit("Random", d, 0);
		fprintf(f_c, "%llx ", HX(dbl_bits(d)));
		print_state(f_c, &ga.ctx);
		fputc('\n', f_c);
		n_lines++; cnt_random++;
	}

	/* (3) seeding: random_lib_lp_init(lp, seed) */
	{
		static const uint64_t sp[] = {0, 1, 2, 0xffffffffull, 0x100000000ull, 0x7fffffffffffffffull, 0x8000000000000000ull,
		    ~0ull - 1, ~0ull};
		unsigned long ns = n / 10 < 200 ? 200 : n / 10;
		for(unsigned long i = 0; i < ns; ++i) {
			uint64_t lp, sd;
			if(i < 81) { lp = sp[i / 9]; sd = sp[i % 9]; }
			else if(i % 3 == 0) { lp = vrng_below(1 << 20); sd = vrng(); }
			else if(i % 3 == 1) { lp = vrng(); sd = vrng_below(1000); }
			else { lp = vrng(); sd = vrng(); }
			global_config.prng_seed = sd;
			/* dirty the target and the rest of the configuration: the result must not depend on them */
			rnd_state(&ga.ctx);
			global_config.n_threads = (unsigned)vrng_below(64);
			global_config.lps = vrng();
			rid = (rid_t)vrng_below(64);
			nid = (nid_t)vrng_below(8);
			random_lib_lp_init(lp, &ga.ctx);
			struct rng_ctx first = ga.ctx;
			other_check("random_lib_lp_init");
			rnd_state(&ga.ctx);
			global_config.n_threads = (unsigned)vrng_below(64);
			rid = (rid_t)vrng_below(64);
			random_lib_lp_init(lp, &ga.ctx);
			if(memcmp(&first, &ga.ctx, sizeof first)) viol("SEED lp=%llx seed=%llx two calls differ", HX(lp), HX(sd));
			if(!(first.state[0] | first.state[1] | first.state[2] | first.state[3]))
				viol("SEED lp=%llx seed=%llx all-zero generator state (fixed point)", HX(lp), HX(sd));
			fprintf(f_ops, "seed %llx %llx\n", HX(lp), HX(sd));
			print_state(f_c, &ga.ctx);
			fputc('\n', f_c);
			n_lines++; cnt_seed++;
		}
	}

	/* (4) xxtea on blocks of 2..12 words, fixed key; round trips */
	for(unsigned long i = 0; i < n / 10 + 50; ++i) {
		uint32_t v[12], w[12];
		unsigned nw = i % 4 ? 8 : 2 + (unsigned)vrng_below(11);
		for(unsigned j = 0; j < nw; ++j)
			v[j] = vrng_below(4) ? (uint32_t)vrng() : (uint32_t)(vrng_below(3) * 0x7fffffffu + vrng_below(2));
		if(i == 0) memset(v, 0, sizeof v);
		if(i == 1) memset(v, 0xff, sizeof v);
		int dec = (int)vrng_below(2);
		memcpy(w, v, sizeof v);
		fprintf(f_ops, "xxtea %s", dec ? "dec" : "enc");
		for(unsigned j = 0; j < nw; ++j)
			fprintf(f_ops, " %x", v[j]);
		fputc('\n', f_ops);
		if(dec) xxtea_decode(w, nw, seeding_key_copy); else xxtea_encode(w, nw, seeding_key_copy);
		for(unsigned j = 0; j < nw; ++j)
			fprintf(f_c, "%s%x", j ? " " : "", w[j]);
		fputc('\n', f_c);
		if(dec) xxtea_encode(w, nw, seeding_key_copy); else xxtea_decode(w, nw, seeding_key_copy);
		if(memcmp(w, v, nw * 4)) viol("ROUNDTRIP n=%u first word %x", nw, v[0]);
		n_lines++; cnt_xxtea++;
	}

	/* (5) RandomRange on boundary arguments x boundary raw outputs */
	static const struct rr RR[] = {{0, 0}, {5, 5}, {-7, -7}, {INT_MAX, INT_MAX}, {INT_MIN, INT_MIN}, {0, 1}, {0, 2}, {1, 6},
	    {-5, -1}, {-1, 1}, {-1000, 1000}, {0, INT_MAX - 1}, {1, INT_MAX}, {INT_MIN, -2}, {-1, INT_MAX - 2},
	    {-1073741824, 1073741822}, {0, 0x7ffffffe}, {0, 0x40000000}, {0, 0x3fffffff}, {0, (1 << 24)}, {0, 9}, {100, 355},
	    {INT_MAX - 1, INT_MAX}, {INT_MIN, INT_MIN + 1}};
	enum { NRR = sizeof(RR) / sizeof(RR[0]) };
	for(size_t i = 0; i < n_us; ++i) {
		uint64_t u = us[i];
		unsigned reps = i < n_boundary ? NRR : 1;
		for(unsigned j = 0; j < reps; ++j) {
			struct rr a = i < n_boundary ? RR[j] : RR[vrng_below(NRR)];
			if(i >= n_boundary && vrng_below(2)) {
				int lo = (int)(vrng() >> 33) - (vrng_below(2) ? (1 << 30) : 0);
				int64_t span = (int64_t)vrng_below(1ull << (1 + vrng_below(31)));
				int64_t hi = (int64_t)lo + span;
				if(hi > INT_MAX) hi = INT_MAX;
				if(hi - lo + 1 > INT_MAX) hi = (int64_t)lo + INT_MAX - 1;
				a.min = lo; a.max = (int)hi;
			}
			struct rng_ctx before;
			craft1(&ga.ctx, u);
			before = ga.ctx;
			int r = RandomRange(a.min, a.max);
			other_check("RandomRange");
			draws_check("RandomRange", &before, 1);
			n_range_checks++;
			if(r < a.min || r > a.max) viol("RANGE RandomRange raw=%llx min=%d max=%d -> %d", HX(u), a.min, a.max, r);
			fprintf(f_ops, "range %llx %d %d\n", HX(u), a.min, a.max);
			fprintf(f_c, "%d\n", r);
			n_lines++; cnt_range++;
		}
		/* the two floating-point operations of the derived functions, as compiled C expressions */
		if(i < n_boundary || i % 4 == 0) {
			craft1(&ga.ctx, u);
			double om = 1 - Random();
			fprintf(f_ops, "onem %llx\n", HX(u));
			fprintf(f_c, "%llx\n", HX(dbl_bits(om)));
			n_range_checks++;
			if(!(om >= 0x1p-53 && om <= 1.0)) viol("RANGE 1-Random raw=%llx bits %llx not in [2^-53,1]", HX(u), HX(dbl_bits(om)));
			int nn = i < n_boundary ? RR[i % NRR].max : 1 + (int)vrng_below(INT_MAX);
			if(nn <= 0) nn = 1 + (int)vrng_below(INT_MAX); /* keep -0.0 out: the value model has one zero */
			craft1(&ga.ctx, u);
			volatile double pr = Random() * nn;
			fprintf(f_ops, "mul %llx %d\n", HX(u), nn);
			fprintf(f_c, "%llx\n", HX(dbl_bits(pr)));
			n_lines += 2; cnt_onem++; cnt_mul++;
		}
	}
	/* whole call on arbitrary states */
	for(unsigned long i = 0; i < n / 8; ++i) {
		rnd_state(&ga.ctx);
		struct rng_ctx before = ga.ctx, chk = before;
		if(random_u64(chk.state) == 1 && !u1_ok) continue;
		struct rr a = RR[vrng_below(NRR)];
		int r = RandomRange(a.min, a.max);
		fprintf(f_ops, "rrange %d %d ", a.min, a.max);
		print_state(f_ops, &before);
		fputc('\n', f_ops);
		fprintf(f_c, "%d ", r);
		print_state(f_c, &ga.ctx);
		fputc('\n', f_c);
		n_lines++; cnt_rrange++;
	}

	/* (6) RandomRangeNonUniform: both raw draws crafted */
	{
		static const int XS[] = {0, 1, 2, 7, 100, 65535, 0x3fffffff, INT_MAX - 1};
		static const struct rr NR[] = {{0, 0}, {3, 3}, {0, 1}, {0, 9}, {1, 6}, {100, 355}, {0, INT_MAX - 1}, {1, INT_MAX},
		    {0x3ffffff0, 0x40000010}, {5, 1000000},
		    /* negative minimum (not exercised by the test-suite; see finding) */
		    {-5, -1}, {-1, 1}, {-1000, 1000}, {-7, -7}, {-100000, -99990}, {-3, 100}};
		enum { NNR = sizeof(NR) / sizeof(NR[0]), NXS = sizeof(XS) / sizeof(XS[0]) };
		unsigned long reps = n / 4 + 2000;
		for(unsigned long i = 0; i < reps; ++i) {
			uint64_t u1 = i % 3 ? us[vrng_below(n_boundary)] : rnd_u();
			uint64_t u2 = i % 5 ? rnd_u() : us[vrng_below(n_boundary)];
			int x = XS[vrng_below(NXS)];
			struct rr a = NR[i < 4 * NNR ? i % NNR : vrng_below(NNR)];
			craft2(&ga.ctx, u1, u2);
			struct rng_ctx before = ga.ctx;
			int r = RandomRangeNonUniform(x, a.min, a.max);
			other_check("RandomRangeNonUniform");
			draws_check("RandomRangeNonUniform", &before, 2);
			n_range_checks++;
			if(a.min < 0) cnt_nonuni_neg++;
			if(r < a.min || r > a.max)
				viol("RANGE RandomRangeNonUniform %s raw1=%llx raw2=%llx x=%d min=%d max=%d -> %d",
				    a.min < 0 ? "negative-min" : "nonnegative-min", HX(u1), HX(u2), x, a.min, a.max, r);
			fprintf(f_ops, "nonuni %d %d %d ", x, a.min, a.max);
			print_state(f_ops, &before);
			fputc('\n', f_ops);
			fprintf(f_c, "%d ", r);
			print_state(f_c, &ga.ctx);
			fputc('\n', f_c);
			n_lines++; cnt_nonuni++;
		}
	}

	/* (7) Poisson / Expent: one draw, finite, non-negative, = -log(1 - Random()) */
	for(size_t i = 0; i < n_us; ++i) {
		if(i >= n_boundary && i % 4) continue;
		uint64_t u = us[i];
		struct rng_ctx before;
		craft1(&ga.ctx, u);
		before = ga.ctx;
		double p = Poisson();
		other_check("Poisson");
		draws_check("Poisson", &before, 1);
		n_range_checks++;
		if(!(p >= 0.0) || !isfinite(p)) viol("RANGE Poisson raw=%llx -> bits %llx", HX(u), HX(dbl_bits(p)));
		ga.ctx = before;
		double e = Expent(3.5);
		if(!(e >= 0.0) || !isfinite(e)) viol("RANGE Expent(3.5) raw=%llx -> bits %llx", HX(u), HX(dbl_bits(e)));
		ga.ctx = before;
		double om = 1 - Random();
		if(dbl_bits(-log(om)) != dbl_bits(p)) viol("TIE Poisson raw=%llx: %llx vs -log(1-Random()) %llx", HX(u), HX(dbl_bits(p)), HX(dbl_bits(-log(om))));
		cnt_poisson++;
	}

	/* (8) Gamma(0..5): ia draws, finite, non-negative; operand chain against the model */
	for(unsigned long i = 0; i < n / 8 + 600; ++i) {
		unsigned ia = (unsigned)(i % 6);
		uint64_t u1 = i % 2 ? us[vrng_below(n_boundary)] : rnd_u();
		uint64_t u2 = i % 3 ? us[vrng_below(n_boundary)] : rnd_u();
		if(i < 36) { u1 = i < 18 ? 0 : ~0ull; u2 = (i / 6) % 3 == 0 ? 0 : (i / 6) % 3 == 1 ? ~0ull : 2; }
		craft2(&ga.ctx, u1, u2);
		struct rng_ctx before = ga.ctx, scan = before;
		int has1 = 0;
		for(unsigned k = 0; k < ia; ++k)
			has1 |= random_u64(scan.state) == 1;
		if(has1 && !u1_ok) continue;
		double gm = Gamma(ia);
		other_check("Gamma");
		draws_check("Gamma", &before, ia);
		n_range_checks++;
		if(!(gm >= 0.0) || !isfinite(gm)) viol("RANGE Gamma(%u) raw1=%llx raw2=%llx -> bits %llx", ia, HX(u1), HX(u2), HX(dbl_bits(gm)));
		ga.ctx = before;
		double x = 1.0;
		for(unsigned k = ia; k--;)
			x *= 1 - Random();
		if(dbl_bits(-log(x)) != dbl_bits(gm)) viol("TIE Gamma(%u): %llx vs -log(x) %llx", ia, HX(dbl_bits(gm)), HX(dbl_bits(-log(x))));
		fprintf(f_ops, "gammax %u ", ia);
		print_state(f_ops, &before);
		fputc('\n', f_ops);
		fprintf(f_c, "%llx ", HX(dbl_bits(x)));
		print_state(f_c, &ga.ctx);
		fputc('\n', f_c);
		n_lines++; cnt_gammax++; cnt_gamma++;
	}

	/* (8b) Gamma(ia >= 6), the rejection branch. Implementation-side oracle on crafted and random states: finite, non-negative,
	 * only the caller's generator touched. Crafted: the FIRST draw of an iteration is the raw output 0, i.e. v1 = Random() = 0.0
	 * (the divisor of y = v2 / v1), or the smallest / largest non-zero outputs; the second draw sometimes 2^63 (v2 = 0.0).
	 * Tie with the Lean model (RandGamma.lean): the whole branch is recomputed by gamma_mirror() (the statements of Gamma(), code
	 * version `gamma_fixed` as observed below) from the same state and must give the same bits and the same final generator state;
	 * the libm-independent part of the FIRST pass (inner loop, v1, v2, y, am, 2am+1) goes to the correspondence diff (gammabig1). */
	{
		static const unsigned IA[] = {6, 7, 10, 100, 100000, 4000000000u};
		/* which Gamma is this? the F14 state: pinned tree inf, repaired tree finite */
		{
			static const uint64_t F14[4] = {0x3c6ef372fe94f82aull, 0, 0x7eb08eda39c9cb72ull, 0x94d049bb133111e9ull};
			memcpy(ga.ctx.state, F14, sizeof F14);
			gamma_fixed = isfinite(Gamma(7));
		}
		for(unsigned long i = 0; i < n / 16 + 400; ++i) {
			unsigned ia = IA[i % 6];
			rnd_state(&ga.ctx);
			if(i % 3 != 2) {
				static const uint64_t FIRST[] = {0, 0, 0, 2, 3, ~0ull, 1ull << 63, 0};
				uint64_t u = FIRST[(i / 6) % 8];
				if(u == 1 && !u1_ok) u = 0;
				if(i % 3 == 1 && (i / 48) % 2) { /* the next two raw outputs: u, then 2^63 / 2^63 +- 1 / 0 / all-ones */
					static const uint64_t SECOND[] = {1ull << 63, (1ull << 63) + 1, (1ull << 63) - 1, 0, ~0ull, 1ull << 62};
					uint64_t k = ga.ctx.state[3];
					craft2(&ga.ctx, u, SECOND[(i / 96) % 6]);
					ga.ctx.state[3] = k;
				} else
					ga.ctx.state[1] = craft_s1(u); /* the next raw output is u, the following ones come from the random rest */
			}
			struct rng_ctx before = ga.ctx, scan = before;
			int has1 = 0;
			if(!u1_ok)
				for(unsigned k = 0; k < 256; ++k)
					has1 |= random_u64(scan.state) == 1;
			if(has1) continue;
			double gm = Gamma(ia);
			other_check("Gamma");
			n_range_checks++;
			cnt_gamma_big++;
			if(!(gm >= 0.0) || !isfinite(gm))
				viol("RANGE Gamma(%u) state=%llx,%llx,%llx,%llx -> bits %llx (rejection branch: value not finite / negative)", ia,
				    HX(before.state[0]), HX(before.state[1]), HX(before.state[2]), HX(before.state[3]), HX(dbl_bits(gm)));
			/* tie: the mirror of the branch from the same state */
			struct rng_ctx after = ga.ctx;
			ga.ctx = before;
			int gave_up;
			double mm = gamma_mirror(gamma_fixed, ia, 100000, &gave_up);
			cnt_gb_tie++;
			if(gave_up || cbits(mm) != cbits(gm) || memcmp(&after, &ga.ctx, sizeof after))
				viol("TIE Gamma(%u) state=%llx,%llx,%llx,%llx: %llx vs mirror(fixed=%d) %llx%s%s", ia, HX(before.state[0]),
				    HX(before.state[1]), HX(before.state[2]), HX(before.state[3]), HX(dbl_bits(gm)), gamma_fixed, HX(dbl_bits(mm)),
				    gave_up ? " (mirror gave up)" : "", memcmp(&after, &ga.ctx, sizeof after) ? " (generator states differ)" : "");
			/* the first pass, libm-independent part */
			ga.ctx = before;
			struct gchain c;
			gamma_chain(gamma_fixed, &c);
			double am = ia - 1;
			fprintf(f_ops, "gammabig1 %d %u ", gamma_fixed, ia);
			print_state(f_ops, &before);
			fputc('\n', f_ops);
			if(c.stuck)
				fprintf(f_c, "stuck %u ", c.k);
			else {
				fprintf(f_c, "%u %llx %llx %llx %d %s %s %llx %llx ", c.k, HX(cbits(c.v1)), HX(cbits(c.v2)), HX(cbits(c.y)),
				    c.v1 == 0.0, fsign_s(c.v2), fclass_s(c.y), HX(cbits(am)), HX(cbits(2.0 * am + 1.0)));
				cnt_gb_v1zero += c.v1 == 0.0;
				cnt_gb_multipass += c.k > 1;
			}
			print_state(f_c, &ga.ctx);
			fputc('\n', f_c);
			n_lines++; cnt_gammabig1++;
			ga.ctx = after;
		}
	}

	/* (8c) the binary64 operations of the Lean float model (add, sub, mul, div, >, <, == 0.0) against the FPU, on special values,
	 * random bit patterns, nearby exponents (cancellation, ties), subnormal and overflowing results */
	for(unsigned long i = 0; i < n / 8 + 2000; ++i) {
		static const char *OPS[] = {"add", "sub", "mul", "div", "div", "gt", "lt", "eq0"};
		const char *op = OPS[i % 8];
		double a = fop_operand(i / 8, 1.0);
		double b = fop_operand(i / 40, a);
		volatile double va = a, vb = b; /* no constant folding / contraction */
		fprintf(f_ops, "fop %s %llx %llx\n", op, HX(dbl_bits(a)), HX(dbl_bits(b)));
		switch(i % 8) {
		case 0: fprintf(f_c, "%llx\n", HX(cbits(va + vb))); break;
		case 1: fprintf(f_c, "%llx\n", HX(cbits(va - vb))); break;
		case 2: fprintf(f_c, "%llx\n", HX(cbits(va * vb))); break;
		case 3:
		case 4: fprintf(f_c, "%llx\n", HX(cbits(va / vb))); break;
		case 5: fprintf(f_c, "%d\n", va > vb); break;
		case 6: fprintf(f_c, "%d\n", va < vb); break;
		default: fprintf(f_c, "%d\n", va == 0.0); break;
		}
		n_lines++; cnt_fop++;
	}

	/* (9) Zipf: result in [1, limit]; generator advanced by raw draws only; Normal: only the generator checks */
	{
		static const double SK[] = {1.5, 2.0, 3.0, 1.05};
		static const unsigned LIM[] = {1, 2, 3, 10, 1000, UINT_MAX};
		for(unsigned long i = 0; i < n / 20 + 300; ++i) {
			double sk = SK[i % 4];
			unsigned lim = LIM[(i / 4) % 6];
			uint64_t u1 = i % 2 ? us[vrng_below(n_boundary)] : rnd_u();
			craft1(&ga.ctx, u1);
			if(i % 7 == 0) rnd_state(&ga.ctx);
			struct rng_ctx before = ga.ctx, scan = before;
			/* skip states that would draw raw 1 within the first 64 draws on the pinned tree */
			int has1 = 0;
			if(!u1_ok)
				for(unsigned k = 0; k < 64; ++k)
					has1 |= random_u64(scan.state) == 1;
			if(has1) continue;
			unsigned z = Zipf(sk, lim);
			other_check("Zipf");
			n_range_checks++;
			if(z < 1 || z > lim) viol("RANGE Zipf skew=%g limit=%u raw1=%llx -> %u", sk, lim, HX(u1), z);
			struct rng_ctx c = before;
			unsigned long k = 0;
			while(k < 100000 && memcmp(&c, &ga.ctx, sizeof c)) { (void)random_u64(c.state); ++k; }
			n_draw_checks++;
			if(k >= 100000) viol("DRAWS Zipf state after the call is not reachable by raw draws");
			if(k > zipf_max_draws) zipf_max_draws = k;
			cnt_zipf++;
		}
		for(unsigned long i = 0; i < 200; ++i) {
			rnd_state(&ga.ctx);
			struct rng_ctx scan = ga.ctx;
			int has1 = 0;
			if(!u1_ok)
				for(unsigned k = 0; k < 64; ++k)
					has1 |= random_u64(scan.state) == 1;
			if(has1) continue;
			double nv = Normal();
			other_check("Normal");
			if(!isfinite(nv)) viol("RANGE Normal -> bits %llx", HX(dbl_bits(nv)));
			cnt_normal++;
		}
	}

	/* which RandomRangeNonUniform is this? x=0, min=-5, max=-1, second raw output 2^63 (Random() = 0.5):
	 * pinned tree -8 (out of range), patched tree -3 */
	craft2(&ga.ctx, 5, 1ull << 63);
	int nonuni_probe = RandomRangeNonUniform(0, -5, -1);

	unsigned lz_cov = 0;
	for(unsigned k = 0; k <= 64; ++k)
		lz_cov += lz_hist[k] != 0;
	unsigned long lz_min = ~0ul;
	for(unsigned k = u1_ok ? 1 : 2; k <= 64; ++k)
		if(lz_hist[k] < lz_min) lz_min = lz_hist[k];
	printf("{\"lines\":%lu,\"u1\":\"%s\",\"boundary_raw_outputs\":%zu,\"random_raw_outputs\":%lu,"
	       "\"leading_one_positions_covered\":%u,\"min_per_position\":%lu,"
	       "\"next\":%lu,\"bits\":%lu,\"random\":%lu,\"seed\":%lu,\"xxtea\":%lu,\"range\":%lu,\"rrange\":%lu,"
	       "\"nonuni\":%lu,\"nonuni_negative_min\":%lu,\"onem\":%lu,\"mul\":%lu,\"gammax\":%lu,\"poisson\":%lu,\"gamma\":%lu,"
	       "\"zipf\":%lu,\"zipf_max_draws\":%lu,\"normal\":%lu,\"range_checks\":%lu,\"other_generator_checks\":%lu,"
	       "\"draw_count_checks\":%lu,\"nonuni_probe\":%d,\"gamma_fixed\":%d,\"gamma_big\":%lu,\"gammabig1\":%lu,"
	       "\"gammabig1_v1_zero\":%lu,\"gammabig1_multipass\":%lu,\"gamma_big_mirror_ties\":%lu,\"fop\":%lu,"
	       "\"oracle_violations\":%lu}\n",
	    n_lines, u1_result, n_boundary, n, lz_cov, lz_min, cnt_next, cnt_bits, cnt_random, cnt_seed, cnt_xxtea, cnt_range,
	    cnt_rrange, cnt_nonuni, cnt_nonuni_neg, cnt_onem, cnt_mul, cnt_gammax, cnt_poisson, cnt_gamma, cnt_zipf,
	    zipf_max_draws, cnt_normal, n_range_checks, n_other_checks, n_draw_checks, nonuni_probe, gamma_fixed, cnt_gamma_big,
	    cnt_gammabig1, cnt_gb_v1zero, cnt_gb_multipass, cnt_gb_tie, cnt_fop, n_viol);
	fclose(f_ops); fclose(f_c); fclose(f_or);
	return 0;
}
