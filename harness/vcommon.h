/* Shared helpers for the /verif C harnesses (never part of ROOT-Sim/core). */
#pragma once
#include <stdint.h>
#include <stdio.h>
#include <stdlib.h>
#include <string.h>

/* one PRNG (splitmix64) from which every random choice of a harness is derived */
static uint64_t vrng_state;
static inline uint64_t vrng(void)
{
	uint64_t z = (vrng_state += 0x9e3779b97f4a7c15ULL);
	z = (z ^ (z >> 30)) * 0xbf58476d1ce4e5b9ULL;
	z = (z ^ (z >> 27)) * 0x94d049bb133111ebULL;
	return z ^ (z >> 31);
}
static inline uint64_t vrng_below(uint64_t n) { return n ? vrng() % n : 0; }

static inline uint64_t dbl_bits(double d)
{
	uint64_t u;
	memcpy(&u, &d, 8);
	return u;
}
static inline double bits_dbl(uint64_t u)
{
	double d;
	memcpy(&d, &u, 8);
	return d;
}

static inline void fput_hex(FILE *f, const unsigned char *p, size_t n)
{
	if(!n) {
		fputc('-', f);
		return;
	}
	for(size_t i = 0; i < n; ++i)
		fprintf(f, "%02x", p[i]);
}

static inline FILE *xfopen(const char *p, const char *m)
{
	FILE *f = fopen(p, m);
	if(!f) {
		perror(p);
		exit(2);
	}
	return f;
}

/* hook verif_batch (src/parallel/parallel.c): number of process_msg() calls between two GVT steps; a harness that wants to
 * choose it defines VERIF_OWN_BATCH before including this header and provides its own definition */
#if !defined(VERIF_OWN_BATCH) && !defined(VERIF_BATCH_DEFINED)
#define VERIF_BATCH_DEFINED
__attribute__((weak)) unsigned verif_batch(unsigned dflt) { return dflt; }
#endif
