/* C06 harness (trace validation, DESIGN 2.4 style 3): a FULL parallel run of the real core (all of
 * src/, distributed/no_mpi.c, built from the working tree with -DROOTSIM_VERIF) on a small
 * rollback-heavy model; every VERIF_TRACE event is logged. tools/props/C06.py splits the log by message
 * and feeds each message's event sequence to `driver msgauto` (trace inclusion in the proved automaton).
 *
 * usage: hc06 <threads> <lps> <end_time> <seed> <trace_out> [watchdog_seconds]
 *
 * The worker threads run freely (this run is NOT schedule-controlled; its replay is the recorded trace).
 * To make the log a linearisation of the atomic flag operations, the three flag updates are made atomic
 * with their log record: the hook VERIF_YIELD(VP_FLAG_*) that precedes each `atomic_fetch_add` on
 * `msg->flags` takes a global lock, the VERIF_TRACE(VK_EXTRACT / VK_ANTI_LOCAL / VK_UNPROCESS) that
 * follows it releases the lock. All other events of a message are ordered with respect to these by
 * program order of the thread that emits them or by the queue hand-over (the event is logged before the
 * insertion / after the extraction).
 * A watchdog (alarm) dumps the partial trace and exits with status 3 if the run does not finish
 * (shutdown hangs are C08's subject); a prefix of a run is still a valid input of the trace check.
 */
#include <ROOT-Sim.h>
#include <core/verif.h>

#include <pthread.h>
#include <signal.h>
#include <stdatomic.h>
#include <stdint.h>
#include <stdio.h>
#include <stdlib.h>
#include <string.h>
#include <sys/time.h>

__attribute__((weak)) unsigned verif_batch(unsigned dflt) { return dflt; } /* hook of parallel.c: built-in batch length */
#include <unistd.h>

static unsigned n_lps;
struct ev {
	long d;
};

void ProcessEvent(lp_id_t me, simtime_t now, unsigned type, const void *c, unsigned sz, void *s)
{
	(void)c; (void)sz; (void)s;
	struct ev e = {0};
	switch(type) {
		case LP_FINI:
			break;
		case LP_INIT:
			SetState(rs_malloc(16));
			ScheduleNewEvent(me, Expent(1.0), 1, &e, sizeof e);
			break;
		case 1: {
			lp_id_t dest = me;
			if(Random() <= 0.6)
				dest = (lp_id_t)(Random() * n_lps);
			ScheduleNewEvent(dest, now + Expent(0.3), 1, &e, sizeof e);
			if(Random() < 0.3) /* a second event with a short delay: many stragglers, many cancels */
				ScheduleNewEvent((lp_id_t)(Random() * n_lps), now + Expent(0.1), 1, &e, sizeof e);
			break;
		}
		default:
			abort();
	}
}

bool CanEnd(lp_id_t me, const void *s)
{
	(void)me; (void)s;
	return false;
}

struct rec {
	unsigned tid, kind;
	uint64_t a, b, c;
};
static struct rec *logbuf;
static _Atomic uint64_t nlog;
static const uint64_t cap = 1 << 23;
static __thread unsigned mytid;
static _Atomic unsigned ntid;
static pthread_mutex_t flag_lock = PTHREAD_MUTEX_INITIALIZER;
static __thread int holding;
static const char *out_path;

void verif_yield(unsigned point)
{
	if(point == VP_FLAG_PROCESS || point == VP_FLAG_ANTI || point == VP_FLAG_UNPROCESS) {
		pthread_mutex_lock(&flag_lock);
		holding = 1;
	}
}

void verif_trace(unsigned kind, uint64_t a, uint64_t b, uint64_t c)
{
	if(!mytid)
		mytid = ++ntid;
	uint64_t i = atomic_fetch_add(&nlog, 1);
	if(i < cap)
		logbuf[i] = (struct rec){mytid, kind, a, b, c};
	if(holding && (kind == VK_EXTRACT || kind == VK_ANTI_LOCAL || kind == VK_UNPROCESS)) {
		holding = 0;
		pthread_mutex_unlock(&flag_lock);
	}
}

uint_fast64_t verif_now(void)
{
	struct timeval tv;
	gettimeofday(&tv, NULL);
	return (uint_fast64_t)tv.tv_sec * 1000000U + tv.tv_usec;
}

static void dump(const char *how)
{
	FILE *f = fopen(out_path, "w");
	if(!f)
		_exit(2);
	uint64_t n = nlog < cap ? nlog : cap;
	/* a log that hit the capacity is only a prefix: never call it complete */
	fprintf(f, "# %s events=%llu\n", nlog > cap ? "truncated" : how, (unsigned long long)n);
	for(uint64_t i = 0; i < n; ++i)
		fprintf(f, "%u %u %llx %llx %llx\n", logbuf[i].tid, logbuf[i].kind, (unsigned long long)logbuf[i].a,
		    (unsigned long long)logbuf[i].b, (unsigned long long)logbuf[i].c);
	fclose(f);
}

static void on_alarm(int sig)
{
	(void)sig;
	dump("partial");
	_exit(3);
}

int main(int argc, char **argv)
{
	if(argc < 6)
		return 2;
	unsigned threads = (unsigned)atoi(argv[1]);
	n_lps = (unsigned)atoi(argv[2]);
	out_path = argv[5];
	logbuf = calloc(cap, sizeof *logbuf);
	signal(SIGALRM, on_alarm);
	alarm(argc > 6 ? (unsigned)atoi(argv[6]) : 40);
	struct simulation_configuration conf = {.lps = n_lps, .n_threads = threads, .termination_time = atof(argv[3]),
	    .gvt_period = 200, .log_level = LOG_SILENT, .stats_file = NULL, .ckpt_interval = 0,
	    .prng_seed = strtoull(argv[4], NULL, 0), .core_binding = false, .serial = false, .dispatcher = ProcessEvent,
	    .committed = CanEnd};
	RootsimInit(&conf);
	int r = RootsimRun();
	alarm(0);
	dump("complete");
	printf("{\"events\":%llu,\"threads\":%u,\"lps\":%u}\n", (unsigned long long)nlog, threads, n_lps);
	return r;
}
