/* C02 wire level: layout facts of the real headers + the classification mpi_remote_msg_handle performs (its size tests
 * are replicated here textually from the REAL macros msg_remote_anti_size()/msg_remote_size()), for every message kind and
 * payload size. usage: hwire <ops> <cout> <oracle> */
#include "vcommon.h"
#include <lp/msg.h>
#include <distributed/control_msg.h>
int main(int argc, char **argv)
{
	if(argc < 4) return 2;
	FILE *fo = xfopen(argv[1], "w"), *fc = xfopen(argv[2], "w"), *fr = xfopen(argv[3], "w");
	unsigned od = (unsigned)offsetof(struct lp_msg, dest), om = (unsigned)offsetof(struct lp_msg, m_seq),
		 op = (unsigned)offsetof(struct lp_msg, pl), cs = (unsigned)sizeof(enum msg_ctrl_code);
	struct lp_msg m;
	unsigned anti = (unsigned)msg_remote_anti_size();
	m.pl_size = 0;
	unsigned ev0 = (unsigned)msg_remote_size(&m);
	fprintf(fo, "layout %u %u %u %u\n", od, om, op, cs);
	fprintf(fc, "layout ok=1 anti=%u ev0=%u\n", anti, ev0);
	unsigned long n = 0;
	for(unsigned pl = 0; pl <= 4096; ++pl) {
		m.pl_size = pl;
		unsigned sizes[3] = {cs, anti, (unsigned)msg_remote_size(&m)};
		const char *want[3] = {"control", "anti", "event"};
		for(int k = 0; k < 3; ++k) {
			int size = (int)sizes[k];
			/* the tests of mpi_remote_msg_handle */
			const char *got = size <= (int)msg_remote_anti_size() ? (size == (int)sizeof(enum msg_ctrl_code) ? "control" : "anti") : "event";
			fprintf(fo, "cls %u %u %u %u %d\n", od, om, op, cs, size);
			fprintf(fc, "%s\n", got);
			if(strcmp(got, want[k]))
				fprintf(fr, "MISCLASSIFIED kind=%s size=%d as=%s payload=%u\n", want[k], size, got, pl);
			n++;
		}
	}
	printf("{\"cases\":%lu,\"offDest\":%u,\"offMSeq\":%u,\"offPl\":%u,\"ctrl\":%u,\"anti\":%u,\"event0\":%u}\n", n, od, om, op, cs, anti, ev0);
	return 0;
}
